#!/bin/bash
# runs the repository's own suite (hooks: none exist / guard off) and prints the tally
cd /repo && /venv/bin/python -m pytest -ra -q -p no:cacheprovider --timeout=900 --continue-on-collection-errors "$@" 2>&1 | tail -8
