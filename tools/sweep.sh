#!/bin/bash
# tools/sweep.sh <ID> <tier> <seed...> : one line per seed, failures in full
id=$1; tier=$2; shift 2
for s in "$@"; do
  out=$(VERIF_SEED=$s ./check $id $tier 2>&1); rc=$?
  echo "seed=$s rc=$rc $(echo "$out" | head -1 | cut -c1-150)"
  if [ $rc -ne 0 ]; then echo "$out" | grep -v "^KNOWN" | head -${SWEEP_LINES:-14}; fi
done
