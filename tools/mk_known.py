"""Regenerates /verif/known_findings.json (run by hand when an entry is added; never
run by a check).  Known findings carry a concrete reproducer case in the format of
their property module; fixed entries are documentation only and suppress nothing."""

import sys

sys.path.insert(0, "/verif")
import numpy as np

from vlib import common

F = []


def known(prop, key, what, mechanism, why_not_repaired, case, inp):
    F.append(
        {
            "status": "known",
            "property": prop,
            "key": key,
            "what": what,
            "mechanism": mechanism,
            "why_not_repaired": why_not_repaired,
            "input": inp,
            "reproducer": {"case": case},
        }
    )


def fixed(prop, commit, what):
    F.append({"status": "fixed", "property": prop, "commit": commit, "what": what, "line": f"fixed: property={prop} {commit} {what}"})


# ------------------------------------------------------------------ C01
X6 = np.array([[0.0, 0.0], [4.0, 0.0], [0.0, 3.0], [2.0, 2.0], [1.0, 0.5], [3.0, 2.5]])
known(
    "C01",
    "K1",
    "after a score-threshold stop selected_idx_ (and y_selected_, support_) is cut to the loop counter of the stopping fit "
    "while n_selected_ and X_selected_ keep every committed pick (FPS family: short by the number of initial picks; "
    "warm-started fits: arbitrarily short)",
    "GreedySelector.fit truncates selected_idx_/y_selected_ with [:n] (n = loop index) instead of [:n_selected_]",
    "tests/test_sample_simple_fps.py::test_threshold pins the short length (6 where 7 picks were made)",
    {
        "spec": {"dir": "sample", "cls": "FPS", "kw": {"initialize": 0}},
        "X": X6,
        "y": None,
        "kind": "gauss",
        "chain": [{"n": 5, "resolved": 5}],
        "threshold": {"mode": "absolute", "reached": True, "u": 0.6},
        "Z": np.zeros((1, 2)),
    },
    "sample FPS(initialize=0, n_to_select=5, absolute score_threshold between the 3rd and 4th traced score) on the 6x2 matrix "
    + repr(X6.tolist()),
)
X4 = np.array([[0.0, 0.0], [1.0, 0.0], [0.0, 0.0], [1.0, 0.0]])
known(
    "C01",
    "K2",
    "when the request exceeds the number of numerically distinct (FPS family) / linearly independent (CUR family) items, "
    "exhausted candidates are selected a second time (all remaining scores are zero or rounding noise and the argmax runs "
    "over every item); the same happens when every remaining STALE score is exactly zero (recompute_every > 1, mutually "
    "orthogonal items)",
    "argmax over all items; no policy for exhausted candidates (the documented full= option is not implemented)",
    "needs a maintainer decision (stop early, raise, or pick at random as full= documents); masking alone does not help "
    "when every remaining score is exactly 0",
    {
        "spec": {"dir": "sample", "cls": "FPS", "kw": {"initialize": 0}},
        "X": X4,
        "y": None,
        "kind": "dup_rows",
        "chain": [{"n": 4, "resolved": 4}],
        "threshold": {"mode": "none"},
        "Z": np.zeros((1, 2)),
    },
    "sample FPS(initialize=0, n_to_select=4) on [[0,0],[1,0],[0,0],[1,0]] (two distinct points, four requested)",
)
fixed("C01", "bc7432f", "VoronoiFPS() / VoronoiFPS(n_to_select=<float>) raised TypeError/IndexError in _init_greedy_search (buffer sized with the raw parameter)")
fixed(
    "C01",
    "3bd6eb0",
    "CUR/PCov-CUR re-selected earlier picks: warm start with recompute_every=0 ([3 1 3 1] vs cold [3 1 6 2]); k above the "
    "residual rank; sample PCov-CUR with dependent selected rows (only the latest pick was masked in pi_)",
)

# ------------------------------------------------------------------ C03 / C04 / C14
fixed("C03", "be6e431", "PCovR(regressor='precomputed') with a 1-D Yhat: sample space raised a matmul error, and the modified Gram matrix was built from Y @ Y.T = scalar (silently wrong projections)")
fixed("C14", "be6e431", "same defect seen through the projector algebra (1-D precomputed Yhat)")
fixed(
    "C04",
    "375caf9",
    "PCovR kept rounding-noise eigen-directions when eps*n*lambda_1 exceeded the absolute tol=1e-12 (data scale >~ 10) and n_components "
    "exceeded the rank of the modified Gram matrix: mixing=0, 20x8 X, 2 targets, n_components=6 gave training loss 255.3 vs least-squares 230.9",
)

# ------------------------------------------------------------------ C05
fixed("C05", "072d35c", "KernelPCovR(regressor='precomputed') with a 1-D Yhat raised in _fit (W @ Yhat.T) or silently used a scalar for Yhat Yhat^T")
fixed("C05", "d4a47d6", "KernelPCovR.score on a held-out set with V != N samples raised a matmul error, and gave a wrong value for V == N (K_VV where the documented loss has K_NN)")
fixed("C05", "6f2bae2", "KernelPCovR(center=True).score centred K_VV as if it were a test-train kernel (-5.11 vs -5.67 by explicit feature-space centring; shape error for V != N)")

# ------------------------------------------------------------------ C10
fixed("C10", "a904241", "Ridge2FoldCV called the scorer with truth and prediction swapped: scoring='r2' gave cv_values_=-25.1 where explicit two-fold CV gives 0.256")
fixed("C10", "5343c07", "Ridge2FoldCV kept rounding-noise singular directions (n = len(s > rcond); rcond applied absolutely): coefficients ~1e14 on X with a duplicated column and alpha=1e-30 / relative 0, wrong fold scores for sigma_1 > ~10")

# ------------------------------------------------------------------ C13
fixed("C13", "995e325", "global/pointwise_global_reconstruction_distortion raised a broadcasting error whenever X had more features than Y (e.g. 40x5 vs 40x3)")

# ------------------------------------------------------------------ C17
import vlib.props.c17 as _c17

_k4 = _c17.gen(common.case_rng("C17", "quick", 0, 3), "quick", 3)
known(
    "C17",
    "K4",
    "with a periodic cell, shifting descriptors or grid points by whole cell lengths changes the log-densities by O(0.1-100): the "
    "periodic covariance takes sin(X) * 2pi/L instead of sin(2pi X / L) for its circular mean, so bandwidths depend on the image chosen",
    "_covariance (neighbors/_sparsekde.py) circular mean; classifier: the relation holds once the run is repeated with a reference "
    "_covariance (correct circular mean) substituted from the harness",
    "tests/test_neighbors.py::test_covariance_periodic and ::test_sparse_kde_periodic pin values computed with the shipped formula",
    _k4,
    "the quick-tier case C17/seed 0/index 3: %d descriptors in %d dimensions (%s cloud), %d grid points, cell %s, image shifts of the grid points"
    % (len(_k4["D"]), _k4["D"].shape[1], _k4["kind"], _k4["M"], np.round(_k4["cell"], 3).tolist()),
)
fixed("C17", "8cb8ec0", "SparseKDE with a small fspread (e.g. 0.1) raised a broadcasting error in the spread-based localisation")
fixed("C17", "d84e962", "SparseKDE.score_samples raised IndexError when a query fell within the cut-off of a grid point with no assigned descriptor (off-sample grids)")
fixed("C17", "49262aa", "effdim: 0*log(0)=NaN bandwidths for clouds constant in one coordinate / collinear; spurious 'not positive definite' for an eigenvalue of -2e-15 beside O(1) ones")
fixed("C17", "e290dd5", "oas shrinkage coefficient outside [0,1] (2.4-9.5 at local populations ~1) gave bandwidths with negative eigenvalues (-1.6 ... -6.3)")

# ------------------------------------------------------------------ C09
known(
    "C09",
    "K3",
    "VoronoiFPS with the default switching point calibrates it from wall-clock timings inside fit and writes the result into the "
    "constructor parameter full_fraction: (i) fit changes a hyper-parameter, (ii) a later cold fit is rejected when the calibration "
    "returned 0, (iii) the scratch attribute new_dist_ left by repeated / refitted estimators differs with the timing-dependent branch taken",
    "VoronoiFPS._init_greedy_search assigns self.full_fraction; classifier: estimator is VoronoiFPS constructed with full_fraction=None and "
    "the only changed hyper-parameter is full_fraction / the only differing fitted attribute is new_dist_ / the refit error is the switching-point ValueError",
    "tests/test_voronoi_fps.py::test_switching_point reads the calibrated value back from the full_fraction parameter",
    {"scenario": "sample.VoronoiFPS(default switching point)", "layout": "C", "readonly": False, "dtype": "float64", "seed": 12345},
    "VoronoiFPS(n_to_select=3).fit(X) on any 14x7 float matrix: get_params/vars before and after fit differ in full_fraction (None -> calibrated value)",
)
fixed("C09", "40f5c07", "QuickShift(cuts, scale=2) multiplied the caller's cut-off array by 4 in place (write-protected array rejected; faulted also for scale=1)")
fixed("C09", "8b14f82", "SparseKDE(descriptors, weights) divided the caller's weights in place (also rejected read-only and integer weights)")
fixed("C09", "6f2ff40", "sample FPS / CUR / VoronoiFPS: fit(X, y) then fit(X) raised TypeError through a stale y_selected_")
fixed("C09", "fdb06df", "KernelNormalizer().fit(K_14).fit(K_9) raised a feature-count ValueError (reset=False in fit)")

# ------------------------------------------------------------------ C08
fixed("C08", "d44f50a", "CUR / PCov-CUR warm start on data of scale >~ 1e3 re-orthogonalised by round-off residuals (absolute tolerance): X_current_ off by up to 66 %, warm-started selection differs from the cold one at scale 1e6")

fixed("C08", "18b51ea", "CUR / PCov-CUR warm start on float32 data re-orthogonalised by round-off residuals (residual ~1e-7 x norm against tolerance 1e-12 x norm): the warm-started selection differed from the cold one in 30 of 40 random 30x20 float32 matrices (observation of a round-4 sub-agent, reproduced; found by the float32 class of C08)")

fixed("C08", "b2f2ffd", "sample PCov-CUR warm start kept using the X and y arrays of the cold fit (X_ref_, y_ref_ are references to the caller's arrays) instead of the data it is handed: after the caller re-used those buffers the warm-started selection and pi differed from the cold fit (17 of 2146 generated chains once the harness overwrote its buffers after each fit)")

fixed("C03", "71a1f76", "pcovr_covariance compared the round-off eigenvalues of a rank-deficient X^T X (eps x largest eigenvalue) with the absolute rcond 1e-12: for data of scale >~ 10 they entered (X^T X)^(-1/2) with weights ~1e5, the feature-space projector got large components outside the row space of X and transform / predict of NEW samples differed from the sample-space route by more than the data scale (6x15 X of scale 40: 146 against 96)")

fixed("C07", "cf1eb8d", "CUR / PCov-CUR handed the absolute tolerance 1e-12 to X_orthogonalizer: the round-off residual (eps x norm) of an item that is an exact copy of selected items was normalised and projected out as a noise direction for data of scale >~ 1e4; importance scores off by 0.015 (feature CUR, k=2, recompute_every=2, 11x20 table of scale 8192 with a duplicated column)")

fixed("C08", "9596237", "VoronoiFPS._init_greedy_search reset vlocation_of_idx and dSL_ before it validated full_fraction / n_trial_calculation: after a cold refit that was refused for an illegal switching point the earlier selection was kept but its tessellation was gone, and the next legal warm start pruned with stale cells and re-selected points at distance 0 (20 of 20 clustered clouds: fit(8), refused fit with full_fraction=2.0, warm start to 30 differs from the cold fit / from FPS); reported as a side observation by a round-7 sub-agent, confirmed on the unchanged tree")

fixed("C08", "0e32956", "GreedySelector._get_best_new_selection stored first_score_ only while a score threshold was active: a relative threshold switched on before a warm start was measured against the first score of the continuation, not against the score of the first selection (the documented reference), so fit(1) -> relative threshold 0.825 -> fit(10, warm_start=True) stopped after 1-2 selections although the single cold fit with the same threshold never reaches it (sample CUR k=2, scores 0.31 0.35 0.28 0.32 0.53 ...: CUR scores are not monotone); found when C08 gained relative thresholds just below the smallest score ratio of the cold fit (round 7)")

# ------------------------------------------------------------------ C15
fixed("C15", "d67ecc1", "periodic_pairwise_euclidean_distances(list-of-lists, cell_length=...) raised AttributeError: the dimension check read X.shape before the documented array-like input was validated")

if __name__ == "__main__":
    out = {
        "comment": "Genuine defects of scikit-matter found by the monitors. status=known: recorded, not repaired, keyed by "
        "mechanism (classifier in the property module); a check prints one KNOWN-FINDING line per entry and exits 0. "
        "status=fixed: repaired by the named 'fix:' commit in /repo; suppresses nothing.",
        "findings": F,
    }
    with open("/verif/known_findings.json", "w") as fh:
        fh.write(common.dumps(out, indent=1))
        fh.write("\n")
    print("wrote", len(F), "entries")
