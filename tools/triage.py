"""Run every case of a property in-process (single worker) and print violating
failures grouped by check/detail. Usage: tools/triage.py C01 quick [n] [filter]"""
import sys, collections, json
sys.path.insert(0, "/verif")
from vlib import common, worker
pid, tier = sys.argv[1], sys.argv[2]
n = int(sys.argv[3]) if len(sys.argv) > 3 else None
flt = sys.argv[4] if len(sys.argv) > 4 else ""
prop = worker.load_prop(pid)
n = n or prop.CASES[tier]
seen = collections.Counter()
import os
seed = int(os.environ.get("VERIF_SEED", "0"))
for i in range(n):
    case = prop.gen(common.case_rng(pid, tier, seed, i), tier, i)
    r = worker.run_case(prop, case)
    if r["harness_error"]:
        print(i, "HARNESS", r["harness_error"][-600:]); continue
    for f in r["failures"]:
        if f["known"]: continue
        if flt and flt not in f["check"]: continue
        key = (f["check"], r["primary"])
        seen[key] += 1
        if seen[key] <= 3:
            print(i, r["primary"], f["check"], json.dumps(f["detail"], default=str)[:500])
print(seen.most_common())
