import warnings, numpy as np, traceback
warnings.filterwarnings("ignore")
from skmatter import feature_selection as fs, sample_selection as ss
rng = np.random.default_rng(0)
X = rng.normal(size=(12, 8)); y = rng.normal(size=(12,))

def show(sel, X, y=None, **kw):
    try:
        sel.fit(X, y, **kw) if y is not None else sel.fit(X, **kw)
        ax = sel._axis
        print(type(sel).__module__.split('.')[1], type(sel).__name__, "n_selected_", sel.n_selected_, "idx", sel.selected_idx_, "Xsel", sel.X_selected_.shape, "ysel", getattr(sel, 'y_selected_', np.zeros(0)).shape, "support", sel.support_.sum())
    except Exception as e:
        print(type(sel).__name__, "EXC", type(e).__name__, e)

print("--- threshold stops")
for mod in (fs, ss):
    show(mod.FPS(n_to_select=6, score_threshold=1.0, score_threshold_type="relative"), X)  # first_score inf?
    show(mod.FPS(n_to_select=6, score_threshold=12.0), X)
    show(mod.CUR(n_to_select=6, score_threshold=0.3), X)
    show(mod.PCovCUR(n_to_select=6, score_threshold=0.3), X, y)
    show(mod.PCovFPS(n_to_select=6, score_threshold=8.0), X, y)
print("--- voronoi None/float")
show(ss.VoronoiFPS(), X); show(ss.VoronoiFPS(n_to_select=0.5), X); show(ss.VoronoiFPS(n_to_select=5), X)
print("--- rank deficient CUR n_to_select > rank")
Xr = rng.normal(size=(12,3)) @ rng.normal(size=(3,8))
for mod in (fs, ss):
    show(mod.CUR(n_to_select=6), Xr); show(mod.FPS(n_to_select=6), Xr); show(mod.PCovCUR(n_to_select=6), Xr, y)
print("--- duplicates FPS")
Xd = np.vstack([X[:4]]*3)
show(ss.FPS(n_to_select=8), Xd); show(ss.VoronoiFPS(n_to_select=8), Xd); show(ss.CUR(n_to_select=8), Xd)
print("--- warm start with threshold after")
s = ss.FPS(n_to_select=3); s.fit(X); s.n_to_select=8; s.score_threshold=12.0; show(s, X, warm_start=True)
print("--- refit with y then without (sample)")
s = ss.FPS(n_to_select=3); s.fit(X, y); show(s, X)
s = ss.CUR(n_to_select=3); s.fit(X, y); show(s, X)
