import warnings; warnings.filterwarnings("ignore")
import numpy as np
rng = np.random.default_rng(1)
from skmatter.clustering import QuickShift
from skmatter.neighbors import SparseKDE
from skmatter.preprocessing import KernelNormalizer, SparseKernelCenterer, StandardFlexibleScaler
from skmatter.sample_selection import VoronoiFPS, FPS
cuts = np.full(6, 4.0); c0 = cuts.copy()
QuickShift(cuts, scale=2.0); print("QS cutoffs mutated:", not np.array_equal(cuts, c0), cuts)
w = np.arange(1., 11.); w0 = w.copy(); D = rng.normal(size=(10,2))
SparseKDE(D, w); print("SKDE weights mutated:", not np.array_equal(w, w0))
try: SparseKDE(D, np.arange(1, 11))
except Exception as e: print("SKDE int weights EXC", type(e).__name__, e)
X = rng.normal(size=(30,4))
v = VoronoiFPS(n_to_select=5); p0 = v.get_params(); v.fit(X); print("VFPS params changed:", {k:(p0[k], v.get_params()[k]) for k in p0 if p0[k] != v.get_params()[k]})
try: v.fit(X); print("refit ok", v.full_fraction)
except Exception as e: print("VFPS refit EXC", type(e).__name__, e)
# KernelNormalizer refit
K1 = X @ X.T; K2 = X[:10] @ X[:10].T
kn = KernelNormalizer().fit(K1)
try: kn.fit(K2); print("KN refit ok")
except Exception as e: print("KN refit EXC", type(e).__name__, e)
kn = KernelNormalizer().fit(K1, sample_weight=np.ones(30))
try: kn.fit(K2); print("KN refit(w->unw) ok")
except Exception as e: print("KN refit EXC", type(e).__name__, e)
# kernel normalizer: refit weighted -> unweighted leaves sample_weight_ None? yes set each time
# read-only inputs
Xr = X.copy(); Xr.setflags(write=False)
for name, f in [("SFS", lambda: StandardFlexibleScaler().fit(Xr).transform(Xr)), ("SFS copy=False inv", lambda: StandardFlexibleScaler().fit(Xr).inverse_transform(Xr)),
                ("FPS", lambda: FPS(n_to_select=3).fit(Xr)), ("KN", lambda: KernelNormalizer().fit_transform(np.ascontiguousarray(Xr@Xr.T)))]:
    try: f(); print(name, "ok readonly")
    except Exception as e: print(name, "EXC", type(e).__name__, e)
Kr = X@X.T; Kr.setflags(write=False)
try: KernelNormalizer().fit(Kr).transform(Kr, copy=True); print("KN readonly ok")
except Exception as e: print("KN readonly EXC", e)
