import warnings; warnings.filterwarnings("ignore")
import numpy as np
from skmatter import sample_selection as ss
rng = np.random.default_rng(0); tot=0; nb=0; pruned=0; steps=0
import skmatter.sample_selection._voronoi_fps as V
orig = V.VoronoiFPS._get_active
stats = {"act":0,"all":0}
def spy(self, X, last):
    r = orig(self, X, last); stats["act"] += len(r); stats["all"] += X.shape[0]; return r
V.VoronoiFPS._get_active = spy
for trial in range(400):
    n = int(rng.integers(4, 60)); m = int(rng.integers(1, 6)); kind = rng.integers(4)
    X = rng.normal(size=(n,m))
    if kind==1: X = rng.integers(-3,4,size=(n,m)).astype(float)
    if kind==2: X = rng.normal(size=(n,m))*0.05 + rng.integers(0,4,size=(n,1))*10  # clustered
    if kind==3: X[n//2:] = X[:n - n//2]
    init = int(rng.integers(n)); nsel = int(rng.integers(1, n+1)); ff = float(rng.choice([1e-9, 0.1, 0.5, 1.0]))
    D = ((X[:,None,:]-X[None,:,:])**2).sum(-1); tol = 1e-9*max(D.max(),1e-300)
    try:
        v = ss.VoronoiFPS(n_to_select=nsel, initialize=init, full_fraction=ff).fit(X)
    except Exception as e:
        print(trial, "EXC", type(e).__name__, e); nb+=1; continue
    idx = list(v.selected_idx_); bad=[]
    for t in range(1, len(idx)):
        md = D[:, idx[:t]].min(1)
        if md.max() <= tol: break  # exhausted
        if md[idx[t]] < md.max()-tol: bad.append(("notfarthest", t, md[idx[t]], md.max())); break
    else: t = len(idx)
    md = D[:, idx].min(1)
    if np.abs(v.get_distance()-md).max() > tol: bad.append(("table", np.abs(v.get_distance()-md).max()))
    f = ss.FPS(n_to_select=nsel, initialize=init).fit(X)
    tot+=1
    if bad: nb+=1; print(trial, kind, X.shape, init, nsel, ff, bad, list(f.selected_idx_)==idx)
print("tot", tot, "bad", nb, stats)
