import warnings; warnings.filterwarnings("ignore")
import numpy as np
rng = np.random.default_rng(1)
from skmatter.decomposition import KernelPCovR, PCovR
from skmatter.preprocessing import KernelNormalizer, StandardFlexibleScaler
X = rng.normal(size=(20,5)); X -= X.mean(0); Y = X @ rng.normal(size=(5,2)) + 0.1*rng.normal(size=(20,2)); Y -= Y.mean(0)
Xt = rng.normal(size=(7,5)); Yt = rng.normal(size=(7,2))
k = KernelPCovR(mixing=0.5, n_components=3, kernel="rbf", gamma=0.3).fit(X, Y)
print("train score", k.score(X, Y))
try: print("heldout score", k.score(Xt, Yt))
except Exception as e: print("heldout EXC", type(e).__name__, e)
Xt20 = rng.normal(size=(20,5)); Yt20 = rng.normal(size=(20,2))
print("heldout same size", k.score(Xt20, Yt20))
# oracle
def oracle(k, Xv, Yv):
    from sklearn.metrics.pairwise import pairwise_kernels
    KNN = pairwise_kernels(k.X_fit_, metric="rbf", gamma=0.3); KVN = pairwise_kernels(Xv, k.X_fit_, metric="rbf", gamma=0.3); KVV = pairwise_kernels(Xv, metric="rbf", gamma=0.3)
    tn = KNN @ k.pkt_; tv = KVN @ k.pkt_
    w = tn @ np.linalg.pinv(tn.T@tn) @ tv.T
    L = np.trace(KVV - 2*KVN@w + w.T@KNN@w)/np.trace(KVV)
    y = KVN @ k.pky_
    return -(L + np.linalg.norm(Yv-y)**2/np.linalg.norm(Yv)**2)
print("oracle same size", oracle(k, Xt20, Yt20), "oracle train", oracle(k, X, Y))
# linear kernel vs PCovR
from sklearn.linear_model import Ridge
from sklearn.kernel_ridge import KernelRidge
p = PCovR(mixing=0.5, n_components=3, space="sample", regressor=Ridge(alpha=1e-3, fit_intercept=False)).fit(X, Y)
kk = KernelPCovR(mixing=0.5, n_components=3, kernel="linear", regressor=KernelRidge(alpha=1e-3, kernel="linear")).fit(X, Y)
print("lin T", np.abs(np.abs(p.transform(Xt)) - np.abs(kk.transform(Xt))).max(), "pred", np.abs(p.predict(Xt)-kk.predict(Xt)).max())
