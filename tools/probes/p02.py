import warnings; warnings.filterwarnings("ignore")
import numpy as np
from skmatter import feature_selection as fs, sample_selection as ss
from skmatter.utils import pcovr_covariance, pcovr_kernel
def brute_D(mod, cls, X, y, mixing):
    A = X if mod is ss else X.T
    if cls == "FPS":
        return ((A[:,None,:]-A[None,:,:])**2).sum(-1)
    if mod is ss: K = mixing*X@X.T + (1-mixing)*y@y.T
    else:
        C = X.T@X; w,U = np.linalg.eigh(C); keep = w>1e-12; Ci = (U[:,keep]/np.sqrt(w[keep]))@U[:,keep].T
        Z = Ci@X.T@y; K = mixing*C + (1-mixing)*Z@Z.T
    d = np.diag(K); return d[:,None]+d[None,:]-2*K
def check(mod, cls, X, y, mixing, init, n):
    kw = dict(n_to_select=n, initialize=init)
    if cls=="PCovFPS": kw["mixing"]=mixing
    s = getattr(mod, cls)(**kw); s.fit(X, y) if cls=="PCovFPS" else s.fit(X)
    D = brute_D(mod, cls, X, y.reshape(len(y),-1), mixing)
    scale = np.abs(D).max(); tol = 1e-9*scale
    idx = list(s.selected_idx_); ninit = len(init) if isinstance(init, list) else 1
    bad = []
    if isinstance(init, list) and idx[:ninit] != init: bad.append("init")
    if isinstance(init, int) and idx[0] != init: bad.append("init")
    sd = s.get_select_distance()
    for t in range(ninit, len(idx)):
        md = D[:, idx[:t]].min(1)
        if md[idx[t]] < md.max() - tol: bad.append(("notfarthest", t, md[idx[t]], md.max()))
        if abs(sd[t] - md[idx[t]]) > tol: bad.append(("seldist", t, sd[t], md[idx[t]]))
    md = D[:, idx].min(1)
    hd = s.get_distance()
    un = np.setdiff1d(np.arange(len(md)), idx)
    if np.abs(hd[un]-md[un]).max(initial=0) > tol: bad.append(("table", np.abs(hd[un]-md[un]).max()))
    if np.any(np.diff(sd[ninit:]) > tol): bad.append("increase")
    return bad
rng = np.random.default_rng(0); nb = 0; tot = 0
for trial in range(300):
    n, m = rng.integers(3, 15, size=2)
    kind = rng.integers(4)
    X = rng.normal(size=(n,m))
    if kind==1: X = rng.integers(-2,3,size=(n,m)).astype(float)
    if kind==2: X = X * 10.0**rng.integers(-3,4,size=m)
    if kind==3: X = np.repeat(X[:max(2,n//2)], 2, axis=0)[:n]; 
    n = X.shape[0]
    y = rng.normal(size=n)
    for mod in (fs, ss):
        N = X.shape[1] if mod is fs else X.shape[0]
        for cls in ("FPS","PCovFPS"):
            init = int(rng.integers(N)) if (cls=="PCovFPS" or rng.random()<.5) else [int(i) for i in rng.permutation(N)[:rng.integers(1, max(2,N//2))]]
            nsel = int(rng.integers((len(init) if isinstance(init,list) else 1), N+1))
            try:
                bad = check(mod, cls, X, y, float(rng.choice([0,0.25,0.5,0.9])), init, nsel)
            except Exception as e: bad = [("EXC", type(e).__name__, str(e)[:80])]
            tot += 1
            if bad: nb += 1; print(trial, kind, mod.__name__.split('.')[1], cls, X.shape, init, nsel, bad[:2])
print("total", tot, "bad", nb)
