import warnings; warnings.filterwarnings("ignore")
import os; os.environ["TQDM_DISABLE"]="1"
import numpy as np, time as T, itertools
import skmatter.sample_selection._voronoi_fps as V
from skmatter.sample_selection import VoronoiFPS, FPS
rng = np.random.default_rng(0); X = rng.normal(size=(60,3))*0.05 + rng.integers(0,4,size=(60,1))*5
ref = FPS(n_to_select=30).fit(X).selected_idx_
def steered(sel, target):
    # calibration protocol: first pair = simple timing (duration 1.0 * n_trial), then pairs per trial.
    state = {"t":0.0, "calls":0}
    def f():
        state["calls"] += 1
        c = state["calls"]
        if c == 1: return 0.0
        if c == 2: state["t"] = float(sel.n_trial_calculation); return state["t"]   # simple timing avg = 1.0
        if c % 2 == 1: return state["t"]                     # start of a voronoi trial
        ff = sel.full_fraction
        state["t"] += (0.5 if ff < target else 2.0)          # faster than simple iff ff < target
        return state["t"]
    return f
for target in (0.0, 0.13, 0.5, 0.77, 1.0):
    for ntrial in (1, 4):
        v = VoronoiFPS(n_to_select=30, n_trial_calculation=ntrial); V.time = steered(v, target); v.fit(X)
        print(target, ntrial, "ff=", round(v.full_fraction,4), "same:", np.array_equal(v.selected_idx_, ref))
V.time = T.time
from skmatter.clustering import QuickShift
pts = rng.normal(size=(7,2)); w = rng.permutation(7).astype(float); cuts = np.full(7, 1.5)
t0=T.time(); labs=set()
for perm in itertools.permutations(range(7)):
    p = list(perm); q = QuickShift(cuts[p].copy()).fit(pts[p], samples_weight=w[p])
    lab = np.empty(7,int); lab[p] = np.array(p)[q.labels_]; labs.add(tuple(lab))
print("7! fits", T.time()-t0, "distinct partitions", len(labs))
