import warnings; warnings.filterwarnings("ignore")
import numpy as np, itertools
from skmatter import feature_selection as fs, sample_selection as ss
rng = np.random.default_rng(0); tot=0; nb=0
def mk(mod, cls, **kw):
    return getattr(mod, cls)(**kw)
def state(s):
    d = dict(idx=s.selected_idx_.copy(), Xs=s.X_selected_.copy())
    if hasattr(s, "y_selected_"): d["ys"] = s.y_selected_.copy()
    if hasattr(s, "hausdorff_"): d["h"]=s.hausdorff_.copy(); d["sd"]=s.get_select_distance().copy()
    if hasattr(s, "pi_"): d["pi"]=s.pi_.copy()
    if hasattr(s, "X_current_"): d["Xc"]=s.X_current_.copy()
    if hasattr(s, "vlocation_of_idx"): d["vloc"]=s.vlocation_of_idx.copy(); 
    return d
for trial in range(150):
    n = int(rng.integers(8, 16)); m = int(rng.integers(8, 16))
    X = rng.normal(size=(n,m)); y = X @ rng.normal(size=m) + rng.normal(size=n)
    combos = [(fs,"FPS",{}),(ss,"FPS",{}),(fs,"PCovFPS",{"mixing":0.3}),(ss,"PCovFPS",{"mixing":0.3}),(ss,"VoronoiFPS",{"full_fraction":0.5}),
              (fs,"CUR",{"recompute_every":1}),(ss,"CUR",{"recompute_every":1}),(fs,"CUR",{"recompute_every":0}),(ss,"CUR",{"recompute_every":0}),
              (fs,"PCovCUR",{"recompute_every":1}),(ss,"PCovCUR",{"recompute_every":1}),(fs,"PCovCUR",{"recompute_every":0}),(ss,"PCovCUR",{"recompute_every":0}),
              (fs,"CUR",{"recompute_every":1,"k":2}),(ss,"PCovCUR",{"recompute_every":1,"k":2})]
    for mod, cls, kw in combos:
        N = m if mod is fs else n
        ntot = int(rng.integers(2, min(N, 7)))
        sched = sorted(set(rng.integers(1, ntot+1, size=3).tolist()+[ntot]))
        usey = cls.startswith("PCov") or rng.random()<.3
        cold = mk(mod, cls, n_to_select=ntot, **kw); cold.fit(X, y) if usey else cold.fit(X)
        w = mk(mod, cls, n_to_select=sched[0], **kw); w.fit(X, y) if usey else w.fit(X)
        for k in sched[1:]:
            w.n_to_select = k; w.fit(X, y, warm_start=True) if usey else w.fit(X, warm_start=True)
        a, b = state(cold), state(w); bad=[]
        for key in a:
            if key=="idx":
                if not np.array_equal(a[key], b[key]): bad.append(("idx", a[key], b[key]))
            elif a[key].shape != b[key].shape: bad.append((key, "shape", a[key].shape, b[key].shape))
            else:
                fin = np.isfinite(a[key])
                if not np.array_equal(fin, np.isfinite(b[key])) or np.abs(a[key][fin]-b[key][fin]).max(initial=0) > 1e-8*max(1,np.abs(a[key][fin]).max(initial=0)): bad.append((key, np.abs(a[key][fin]-b[key][fin]).max(initial=0)))
        tot+=1
        if bad: nb+=1; print(trial, mod.__name__.split('.')[1], cls, kw, sched, [b_[:2] for b_ in bad][:3])
print("tot", tot, "bad", nb)
