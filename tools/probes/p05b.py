import warnings; warnings.filterwarnings("ignore")
import numpy as np
from sklearn.metrics.pairwise import pairwise_kernels
from sklearn.decomposition import KernelPCA
from sklearn.kernel_ridge import KernelRidge
from skmatter.decomposition import KernelPCovR
from skmatter.preprocessing import KernelNormalizer
rng = np.random.default_rng(0); bad=[]; tot=0
def sg(A,B): s=np.sign((A*B).sum(0)); s[s==0]=1; return np.abs(A-B*s).max()
for t in range(80):
    n=int(rng.integers(6,25)); f=int(rng.integers(2,6)); p=int(rng.integers(1,3)); nv=int(rng.integers(1,30))
    X=rng.normal(size=(n,f)); Y=np.sin(X@rng.normal(size=(f,p)))+0.1*rng.normal(size=(n,p)); Y-=Y.mean(0); Xv=rng.normal(size=(nv,f)); Yv=rng.normal(size=(nv,p))
    kern = ["linear","rbf","poly","cosine","sigmoid"][rng.integers(5)]; kp = dict(gamma=float(rng.uniform(0.05,0.5)), degree=int(rng.integers(2,4)), coef0=float(rng.uniform(0,2)))
    if kern=="sigmoid": kp["gamma"]=0.01
    mixing=float(rng.choice([0.1,0.5,0.9])); k=int(rng.integers(1,min(n-1,4)+1)); center=bool(rng.integers(2))
    regs = [None, KernelRidge(kernel=kern, alpha=1e-2, **kp)]
    reg = regs[rng.integers(2)]
    try:
        a = KernelPCovR(mixing=mixing,n_components=k,kernel=kern,center=center,regressor=reg,**kp).fit(X,Y)
        K = pairwise_kernels(X,metric=kern,filter_params=True,**kp); Kv = pairwise_kernels(Xv,X,metric=kern,filter_params=True,**kp)
        if center:
            kn = KernelNormalizer().fit(K); Kc, Kvc = kn.transform(K), kn.transform(Kv)
        else: Kc, Kvc = K, Kv
        regp = None if reg is None else KernelRidge(kernel="precomputed", alpha=reg.alpha)
        b = KernelPCovR(mixing=mixing,n_components=k,kernel="precomputed",center=False,regressor=regp).fit(Kc,Y)
        d1 = sg(a.transform(Xv), b.transform(Kvc)); d2 = np.abs(a.predict(Xv)-b.predict(Kvc)).max()
        if d1>1e-6*max(1,np.abs(a.transform(X)).max()) or d2>1e-6*max(1,np.abs(Y).max()): bad.append(("precomp", t, kern, center, reg is None, d1, d2))
    except Exception as e: bad.append(("EXC",t,kern,center,type(e).__name__,str(e)[:100]))
    # KPCA limit
    try:
        K = pairwise_kernels(X,metric=kern,filter_params=True,**kp)
        a = KernelPCovR(mixing=1.0,n_components=k,kernel=kern,center=True,**kp).fit(X,Y)
        kp2 = {kk:v for kk,v in kp.items()}
        kpca = KernelPCA(n_components=k,kernel=kern,**kp2).fit(X)
        Ta, Tb = a.transform(Xv), kpca.transform(Xv)
        sc = np.sqrt(a.centerer_.scale_)
        ev = np.linalg.eigvalsh(KernelNormalizer().fit_transform(K))[::-1]
        if k<n-1 and (ev[k-1]-ev[k])/ev[0]>1e-4 and (k==1 or np.min(-np.diff(ev[:k]))/ev[0]>1e-4):
            d = sg(Ta*sc, Tb)
            if d>1e-6*max(1,np.abs(Tb).max()): bad.append(("kpca",t,kern,k,d))
    except Exception as e: bad.append(("EXC kpca",t,kern,type(e).__name__,str(e)[:100]))
    tot+=1
print("tot",tot,"bad",len(bad))
for b in bad[:15]: print(b)
