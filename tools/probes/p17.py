import warnings; warnings.filterwarnings("ignore")
import numpy as np
rng = np.random.default_rng(1)
from skmatter.neighbors import SparseKDE
from skmatter.sample_selection import FPS
def build(D, M=8, cell=None, **kw):
    G = D[FPS(n_to_select=M).fit(D).selected_idx_]
    mp = {"cell_length": cell} if cell is not None else None
    return SparseKDE(D, None, metric_params=mp, **kw).fit(G), G
D = np.vstack([rng.normal(size=(100,2)), rng.normal(size=(100,2))*[0.3,2]+[5,5]])
k, G = build(D, fpoints=0.3)
ev = np.array([np.linalg.eigvalsh(h) for h in k.bandwidth_]); print("free: min eig", ev.min(), "finite", np.isfinite(k.bandwidth_).all(), "wsum", np.sum(k._sample_weights))
Q = rng.normal(size=(5,2))*3
s0 = k.score_samples(Q)
k2, _ = build(D+7.5, fpoints=0.3); print("translation inv:", np.abs(k2.score_samples(Q+7.5)-s0).max())
# degenerate: third coord constant
D3 = np.hstack([D, np.zeros((200,1))])
try:
    k3,_ = build(D3, fpoints=0.3); print("degenerate bw finite:", np.isfinite(k3.bandwidth_).all())
except Exception as e: print("degenerate EXC", type(e).__name__, e)
# degenerate: points on a line in 2D (rank-1 cov not axis aligned)
t = rng.normal(size=(200,1)); DL = np.hstack([t, 2*t])
try:
    kL,_ = build(DL, fpoints=0.3); evL = np.array([np.linalg.eigvalsh(h) for h in kL.bandwidth_]); print("line: finite", np.isfinite(kL.bandwidth_).all(), "min eig", evL.min())
except Exception as e: print("line EXC", type(e).__name__, e)
# fspread
for fs in (0.1, 0.5, 2.0):
    try:
        kf,_ = build(D, fspread=fs); evf = np.array([np.linalg.eigvalsh(h) for h in kf.bandwidth_]); print("fspread", fs, "min eig", evf.min(), np.isfinite(kf.bandwidth_).all())
    except Exception as e: print("fspread", fs, "EXC", type(e).__name__, e)
# small fpoints -> small local population
for fp in (0.02, 0.05):
    try:
        kf,_ = build(D, M=20, fpoints=fp); evf = np.array([np.linalg.eigvalsh(h) for h in kf.bandwidth_]); print("fpoints", fp, "min eig", evf.min(), np.isfinite(kf.bandwidth_).all(), "sym", np.abs(kf.bandwidth_-kf.bandwidth_.transpose(0,2,1)).max())
    except Exception as e: print("fpoints", fp, "EXC", type(e).__name__, e)
# periodic shift invariance
cell = np.array([4.0, 6.0]); Dp = rng.uniform(0, 1, size=(150,2))*cell*0.5 + [1,1]
kp, Gp = build(Dp, cell=cell, fpoints=0.3)
Qp = rng.uniform(0,1,size=(5,2))*cell
sp = kp.score_samples(Qp)
print("periodic query shift:", np.abs(kp.score_samples(Qp + cell*[1,-2]) - sp).max())
Dp2 = Dp + cell*rng.integers(-2,3,size=Dp.shape)
G2 = Dp2[FPS(n_to_select=8).fit(Dp).selected_idx_]
kp2 = SparseKDE(Dp2, None, metric_params={"cell_length": cell}, fpoints=0.3).fit(G2)
print("periodic descriptor image shift:", np.abs(kp2.score_samples(Qp)-sp).max())
kp3 = SparseKDE(Dp+cell, None, metric_params={"cell_length": cell}, fpoints=0.3).fit(Gp+cell)
print("periodic uniform cell shift:", np.abs(kp3.score_samples(Qp)-sp).max())
