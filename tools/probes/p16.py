import warnings; warnings.filterwarnings("ignore")
import numpy as np, os, sys
os.environ["TQDM_DISABLE"]="1"
from skmatter.clustering import QuickShift
from skmatter.clustering._quick_shift import _get_gabriel_graph
rng = np.random.default_rng(0); tot=0; nb=0
def pdist2(X, cell):
    d = X[:,None,:]-X[None,:,:]
    if cell is not None: d -= np.round(d/cell)*cell
    return (d**2).sum(-1)
def oracle_next(D, w, i, cut=None, gab=None, shell=None):
    n = len(w); cand_sets=[]
    higher = [j for j in range(n) if w[j]>w[i] and j!=i]
    if cut is not None:
        inside = [j for j in higher if D[i,j] < cut]
        if inside:
            dm = min(D[i,j] for j in inside); return {j for j in inside if D[i,j]==dm}
        Dn = D[i].copy(); Dn[i]=np.inf; dm = Dn.min(); nn = [j for j in range(n) if Dn[j]==dm]
        # code uses argmin -> first; accept if any nn higher
        r = {j for j in nn if w[j]>w[i]}
        return r if r else {i}
    else:
        reach = {i}; frontier={i}
        for _ in range(shell):
            frontier = {b for a in frontier for b in range(n) if gab[a,b]} - reach; reach |= frontier
        c = [j for j in higher if j in reach]
        if not c: return {i}
        dm = min(D[i,j] for j in c); return {j for j in c if D[i,j]==dm}
for trial in range(300):
    n = int(rng.integers(2, 40)); d = int(rng.integers(1,4)); kind = rng.integers(3)
    X = rng.normal(size=(n,d))*2
    if kind==1: X = rng.integers(-2,3,size=(n,d)).astype(float)
    w = rng.permutation(n).astype(float) + rng.random()
    cell = rng.uniform(1.5,5,size=d) if rng.random()<.4 else None
    mode = rng.integers(2)
    D = pdist2(X, cell); 
    mp = {"cell_length": cell} if cell is not None else None
    try:
        if mode==0:
            cuts = rng.choice([1e-3, 0.5, 2.0, 10., 1e3], size=n)**1.0
            scale = float(rng.choice([1.0, 0.5, 2.0])); cuts_in = cuts.copy()
            q = QuickShift(cuts_in, scale=scale, metric_params=mp).fit(X, samples_weight=w); cutsq = cuts*scale**2
        else:
            shell = int(rng.integers(1,4))
            q = QuickShift(gabriel_shell=shell, metric_params=mp).fit(X, samples_weight=w)
    except Exception as e:
        print(trial, "EXC", type(e).__name__, str(e)[:100], (n,d,kind,mode)); nb+=1; continue
    Dd = D.copy(); np.fill_diagonal(Dd, np.inf)
    gab = None
    if mode==1:
        gab = np.zeros((n,n),bool)
        for i in range(n):
            for j in range(n):
                if i!=j: gab[i,j] = not any((Dd[i,k]+Dd[j,k] < Dd[i,j]) for k in range(n) if k!=i and k!=j)
        g2 = _get_gabriel_graph(Dd.copy())
        if not np.array_equal(g2, gab): print(trial, "gabriel mismatch")
    lab = q.labels_; bad=[]
    # tie-free?
    nxt = [oracle_next(Dd, w, i, cut=cutsq[i] if mode==0 else None, gab=gab, shell=shell if mode==1 else None) for i in range(n)]
    ties = any(len(s)>1 for s in nxt)
    if not ties:
        root = np.arange(n)
        for i in range(n):
            c=i
            while next(iter(nxt[c]))!=c: c = next(iter(nxt[c]))
            root[i]=c
        if not np.array_equal(root, lab): bad.append(("labels", root, lab))
        cen = np.flatnonzero(root==np.arange(n))
        if not np.array_equal(cen, q.cluster_centers_idx_): bad.append("centers")
        if lab[np.argmax(w)] != np.argmax(w): bad.append("top")
    tot+=1
    if bad: nb+=1; print(trial, (n,d,kind,mode), bad[:1])
print("tot",tot,"bad",nb)
