import warnings; warnings.filterwarnings("ignore")
import os; os.environ["TQDM_DISABLE"]="1"
import numpy as np, copy
from skmatter import feature_selection as fs, sample_selection as ss
from skmatter.decomposition import PCovR, KernelPCovR
from skmatter.preprocessing import StandardFlexibleScaler as SFS, KernelNormalizer as KN, SparseKernelCenterer as SKC
from skmatter.linear_model import Ridge2FoldCV, OrthogonalRegression
from skmatter.clustering import QuickShift
from skmatter.neighbors import SparseKDE
rng = np.random.default_rng(0)
def pub(est):
    return {k:v for k,v in vars(est).items() if k.endswith("_") and not k.startswith("_")}
def same(a,b):
    if isinstance(a,np.ndarray) or isinstance(b,np.ndarray):
        a,b=np.asarray(a),np.asarray(b)
        if a.shape!=b.shape: return False
        if a.dtype.kind in "fc": return np.allclose(a,b,rtol=1e-7,atol=1e-9,equal_nan=True)
        return np.array_equal(a,b)
    if isinstance(a,(float,int,np.floating)): 
        try: return bool(np.isclose(a,b))
        except Exception: return False
    if isinstance(a,(list,tuple)): return len(a)==len(b) and all(same(x,y) for x,y in zip(a,b))
    if hasattr(a,"__dict__") and not callable(a): return type(a)==type(b)
    return a==b or callable(a)
def cmp(name, mk, fitA, fitB):
    try:
        e = mk(); fitA(e); fitB(e); fr = mk(); fitB(fr)
    except Exception as ex: print(name, "EXC", type(ex).__name__, str(ex)[:90]); return
    pa, pb = pub(e), pub(fr)
    diff = [k for k in set(pa)|set(pb) if k not in pa or k not in pb or not same(pa[k],pb[k])]
    print(name, "DIFF" if diff else "ok", diff)
XA = rng.normal(size=(14,9)); yA = rng.normal(size=14); XB = rng.normal(size=(10,6)); yB = rng.normal(size=10)
for mod in (fs, ss):
    for cls,kw in (("FPS",{}),("CUR",{}),("PCovFPS",{}),("PCovCUR",{})):
        mk = lambda: getattr(mod,cls)(n_to_select=3, **kw)
        nm = mod.__name__.split('.')[1][:4]+"."+cls
        cmp(nm+" A(y)->B(y)", mk, lambda e: e.fit(XA,yA), lambda e: e.fit(XB,yB))
        if not cls.startswith("PCov"):
            cmp(nm+" A(y)->B()", mk, lambda e: e.fit(XA,yA), lambda e: e.fit(XB))
            cmp(nm+" A()->B(y)", mk, lambda e: e.fit(XA), lambda e: e.fit(XB,yB))
cmp("VoronoiFPS(ff=.5)", lambda: ss.VoronoiFPS(n_to_select=3, full_fraction=0.5), lambda e: e.fit(XA,yA), lambda e: e.fit(XB))
cmp("DCH", lambda: ss.DirectionalConvexHull(), lambda e: e.fit(XA,yA), lambda e: e.fit(XB,yB))
cA = XA-XA.mean(0); cB = XB-XB.mean(0); YA2 = rng.normal(size=(14,2)); 
cmp("PCovR 2D->1D", lambda: PCovR(n_components=2), lambda e: e.fit(cA,YA2), lambda e: e.fit(cB,yB))
cmp("PCovR 1D->2D", lambda: PCovR(n_components=2), lambda e: e.fit(cB,yB), lambda e: e.fit(cA,YA2))
cmp("KPCovR", lambda: KernelPCovR(n_components=2, kernel="rbf", center=True), lambda e: e.fit(cA,YA2), lambda e: e.fit(cB,yB))
cmp("SFS", lambda: SFS(), lambda e: e.fit(XA, sample_weight=np.ones(14)), lambda e: e.fit(XB))
cmp("KN unw->unw", lambda: KN(), lambda e: e.fit(XA@XA.T), lambda e: e.fit(XB@XB.T))
cmp("KN w->unw", lambda: KN(), lambda e: e.fit(XA@XA.T, sample_weight=np.ones(14)), lambda e: e.fit(XB@XB.T))
cmp("KN unw->w", lambda: KN(), lambda e: e.fit(XA@XA.T), lambda e: e.fit(XB@XB.T, sample_weight=np.arange(1.,11)))
cmp("SKC", lambda: SKC(), lambda e: e.fit(XA@XA[:3].T, XA[:3]@XA[:3].T), lambda e: e.fit(XB@XB[:4].T, XB[:4]@XB[:4].T))
cmp("R2F", lambda: Ridge2FoldCV(random_state=0), lambda e: e.fit(XA,YA2), lambda e: e.fit(XB,yB.reshape(-1,1)))
cmp("OR", lambda: OrthogonalRegression(), lambda e: e.fit(XA,YA2), lambda e: e.fit(XB,yB.reshape(-1,1)))
cmp("OR pad", lambda: OrthogonalRegression(use_orthogonal_projector=False), lambda e: e.fit(XA,YA2), lambda e: e.fit(XB,yB.reshape(-1,1)))
cmp("QS", lambda: QuickShift(gabriel_shell=2), lambda e: e.fit(XA[:,:2], samples_weight=yA), lambda e: e.fit(XB[:,:2], samples_weight=yB))
cmp("SKDE", lambda: SparseKDE(XA[:,:2], None, fpoints=0.5), lambda e: e.fit(XA[:5,:2]), lambda e: e.fit(XA[5:9,:2]))
