import warnings; warnings.filterwarnings("ignore")
import os; os.environ["TQDM_DISABLE"]="1"
import numpy as np
from scipy.special import logsumexp
from skmatter.neighbors import SparseKDE
from skmatter.sample_selection import FPS
rng = np.random.default_rng(0); bad=0; tot=0; far=0; near=0
def pd2(A,B,cell):
    d = A[:,None,:]-B[None,:,:]
    if cell is not None: d -= np.round(d/cell)*cell
    return d
for t in range(60):
    d = int(rng.integers(1,4)); N = int(rng.integers(30,150)); Mg = int(rng.integers(3,12))
    D = np.vstack([rng.normal(size=(N//2,d))*rng.uniform(0.2,1.5,size=d), rng.normal(size=(N-N//2,d))*rng.uniform(0.2,1.5,size=d)+rng.uniform(3,9)])
    cell = rng.uniform(6,14,size=d) if rng.random()<.3 else None
    w = None if rng.random()<.5 else rng.random(N)+0.1
    G = D[rng.permutation(N)[:Mg]] if rng.random()<.5 else D[rng.permutation(N)[:Mg]]+0.05*rng.normal(size=(Mg,d))
    kw = {"fpoints": float(rng.uniform(0.1,0.8))}
    try: k = SparseKDE(D.copy(), None if w is None else w.copy(), metric_params=None if cell is None else {"cell_length":cell}, **kw).fit(G)
    except Exception as e: print(t,"EXC",type(e).__name__,str(e)[:80]); continue
    wn = np.ones(N)/N if w is None else w/w.sum()
    # oracle assignment
    dist = (pd2(D,G,cell)**2).sum(-1); lab = dist.argmin(1)
    if not np.array_equal(lab, np.array(k._sample_labels_)): print(t,"assignment mismatch"); bad+=1
    gw = np.bincount(lab, weights=wn, minlength=Mg)
    if np.abs(gw-k._sample_weights).max()>1e-12 or abs(gw.sum()-1)>1e-12: print(t,"grid weight mismatch"); bad+=1
    H = k.bandwidth_; Hi = np.linalg.inv(H); ld = np.array([np.linalg.slogdet(h)[1] for h in H]); cut = (3*(np.sqrt(d)+1))**2
    Q = np.vstack([rng.normal(size=(4,d))*3+rng.uniform(0,6), D[:2]+1e-3, G[:1]+0.5])
    ref = []
    for q in Q:
        terms=[]
        dq = pd2(q[None,:], G, cell)[0]
        for j in range(Mg):
            m2 = dq[j]@Hi[j]@dq[j]
            if m2 > cut:
                far+=1; terms.append(-0.5*(d*np.log(2*np.pi)+ld[j]+m2)+np.log(gw[j]))
            else:
                near+=1; mem = np.flatnonzero(lab==j); mem = mem[np.any(D[mem]!=q,axis=1)]
                if len(mem)==0: continue
                dd = pd2(D[mem], q[None,:], cell)[:,0,:]; m2s = np.einsum('ij,jk,ik->i', dd, Hi[j], dd)
                terms.extend(-0.5*(d*np.log(2*np.pi)+ld[j]+m2s)+np.log(wn[mem]))
        ref.append(logsumexp(terms) - np.log(gw.sum()))
    got = k.score_samples(Q); ref=np.array(ref)
    if np.abs(got-ref).max()>1e-8*max(1,np.abs(ref).max()): print(t,"mixture mismatch",np.abs(got-ref).max()); bad+=1
    if abs(k.score(Q)-got.sum())>1e-9: print(t,"score sum"); bad+=1
    tot+=1
print("tot",tot,"bad",bad,"far terms",far,"near terms",near)
