import warnings; warnings.filterwarnings("ignore")
import numpy as np
from sklearn.preprocessing import StandardScaler
from skmatter.preprocessing import StandardFlexibleScaler as SFS, KernelNormalizer as KN, SparseKernelCenterer as SKC
from skmatter.metrics import periodic_pairwise_euclidean_distances as ppd, pairwise_mahalanobis_distances as pmd, local_prediction_rigidity as lpr, componentwise_prediction_rigidity as cpr
from skmatter.linear_model import OrthogonalRegression as OR
from sklearn.metrics.pairwise import euclidean_distances
rng = np.random.default_rng(0)
bad = []
# ---- C11
for t in range(200):
    n=int(rng.integers(2,30)); m=int(rng.integers(1,8)); X = rng.normal(size=(n,m))*10.0**rng.integers(-3,4,size=m)+rng.normal(size=m)*10
    wm, ws, cw = rng.random(3)<.5
    w = None if rng.random()<.4 else rng.integers(0,4,size=n).astype(float)
    if w is not None and (w>0).sum()<2: w[:2]=1
    try: s = SFS(with_mean=wm, with_std=ws, column_wise=cw).fit(X, sample_weight=w)
    except ValueError as e: continue
    T = s.transform(X); ww = np.ones(n) if w is None else w
    mu = np.average(T, axis=0, weights=ww); var = np.average((T-mu)**2, axis=0, weights=ww)
    if wm and np.abs(mu).max()>1e-8: bad.append(("C11 mean",t))
    if ws and cw and np.abs(var-1).max()>1e-8: bad.append(("C11 var cw",t))
    if ws and not cw and abs(var.sum()-1)>1e-8: bad.append(("C11 var tot",t, var.sum()))
    if np.abs(s.inverse_transform(T)-X).max()>1e-9*np.abs(X).max(): bad.append(("C11 inv",t))
    if w is not None:
        Xr = np.repeat(X, w.astype(int), axis=0); s2 = SFS(with_mean=wm, with_std=ws, column_wise=cw).fit(Xr)
        if np.abs(s2.transform(X)-T).max()>1e-8*max(1,np.abs(T).max()): bad.append(("C11 rep",t))
    if w is None and wm and ws and cw and np.abs(StandardScaler().fit_transform(X)-T).max()>1e-8: bad.append(("C11 sk",t))
# ---- C12
for t in range(200):
    n=int(rng.integers(2,20)); nt=int(rng.integers(1,25)); f=int(rng.integers(1,8)); F = rng.normal(size=(n,f))+rng.normal(size=f); Ft = rng.normal(size=(nt,f))
    w = None if rng.random()<.4 else rng.random(n)+0.01
    wc, wt = rng.random(2)<.6
    K = F@F.T; Kt = Ft@F.T
    kn = KN(with_center=wc, with_trace=wt).fit(K, sample_weight=w)
    ww = np.ones(n)/n if w is None else w/w.sum()
    mu = ww@F if wc else 0*F[0]
    Fc, Ftc = F-mu, Ft-mu
    sc = np.trace(Fc@Fc.T)/n if wt else 1.0
    if np.abs(kn.transform(K)-Fc@Fc.T/sc).max()>1e-8*max(1,np.abs(K).max()/sc): bad.append(("C12 train",t))
    if np.abs(kn.transform(Kt)-Ftc@Fc.T/sc).max()>1e-8*max(1,np.abs(K).max()/sc): bad.append(("C12 test",t,wc,wt, w is None))
    if wt and abs(np.trace(kn.transform(K))-n)>1e-8*n: bad.append(("C12 trace",t))
    if np.abs(KN(with_center=wc, with_trace=wt).fit_transform(K, sample_weight=w)-kn.transform(K)).max()>1e-12: bad.append(("C12 ft",t))
    # sparse
    a = int(rng.integers(1,n+1)); act = rng.permutation(n)[:a]; Knm = F@F[act].T; Kmm = F[act]@F[act].T
    sk = SKC(with_center=wc, with_trace=wt).fit(Knm, Kmm, sample_weight=w); Tn = sk.transform(Knm)
    if wc and np.abs(ww@Tn).max()>1e-8*max(1,np.abs(Tn).max()): bad.append(("C12 sparse mean",t))
    if wt:
        tr = np.trace(Tn@np.linalg.pinv(Kmm, 1e-12)@Tn.T)
        if abs(tr-n)>1e-6*n: bad.append(("C12 sparse trace",t,tr,n))
# ---- C15
for t in range(200):
    d=int(rng.integers(1,7)); n=int(rng.integers(1,10)); m_=int(rng.integers(1,10)); cell = rng.uniform(0.1,10,size=d)*10.0**rng.integers(-1,2,size=d)
    X = rng.normal(size=(n,d))*30; Y = rng.normal(size=(m_,d))*30; Z = rng.normal(size=(4,d))*30
    D = ppd(X,Y,cell_length=cell); scale = np.linalg.norm(cell)
    if D.min()<0: bad.append(("C15 neg",t))
    if np.abs(D-ppd(Y,X,cell_length=cell).T).max()>1e-9*scale: bad.append(("C15 sym",t))
    sh = rng.integers(-5,6,size=(n,d))*cell
    if np.abs(ppd(X+sh,Y,cell_length=cell)-D).max()>1e-9*max(scale, 1)*30: bad.append(("C15 image",t, np.abs(ppd(X+sh,Y,cell_length=cell)-D).max()))
    if np.abs(np.diag(ppd(X, X+sh, cell_length=cell))).max()>1e-9*scale*30: bad.append(("C15 zero image",t))
    if (D > euclidean_distances(X,Y)+1e-9).any() or (D>scale/2+1e-9*scale).any(): bad.append(("C15 bound",t))
    if np.abs(ppd(X,Y,cell_length=cell,squared=True)-D**2).max()>1e-9*scale**2: bad.append(("C15 sq",t))
    Dxz, Dzy = ppd(X,Z,cell_length=cell), ppd(Z,Y,cell_length=cell)
    if (D[:,None,:] > Dxz[:,:,None]+Dzy[None,:,:]+1e-9*scale).any(): bad.append(("C15 tri",t))
    if np.abs(ppd(X,Y)-euclidean_distances(X,Y)).max()>0: bad.append(("C15 nocell",t))
    M = pmd(X,Y,np.eye(d),cell)
    if np.abs(M[0]-D).max()>1e-9*scale: bad.append(("C15 mah id",t))
    L = rng.normal(size=(3,d,d)); P = L@L.transpose(0,2,1)+0.1*np.eye(d)
    Lc = np.linalg.cholesky(P)
    Mm = pmd(X,Y,P)
    for i in range(3):
        ref = euclidean_distances(X@Lc[i], Y@Lc[i])
        if np.abs(Mm[i]-ref).max()>1e-7*max(1,ref.max()): bad.append(("C15 mah L",t,np.abs(Mm[i]-ref).max()))
        if np.abs(pmd(X,Y,P[i])[0]-Mm[i]).max()>1e-9*max(1,ref.max()): bad.append(("C15 stack",t))
    try: ppd(X,Y,cell_length=np.ones(d+1)); bad.append(("C15 noreject",t))
    except ValueError: pass
print("C11/12/15 bad:", bad[:10], len(bad))
