import warnings; warnings.filterwarnings("ignore")
import numpy as np
from skmatter.decomposition import KernelPCovR
rng = np.random.default_rng(1)
for nv in (1, 7, 20, 33):
    X = rng.normal(size=(20,5))+3; Y = X @ rng.normal(size=(5,2)) + 0.1*rng.normal(size=(20,2)); Y -= Y.mean(0)
    Xv = rng.normal(size=(nv,5))+3; Yv = rng.normal(size=(nv,2))
    k = KernelPCovR(mixing=0.5, n_components=3, kernel="linear", center=True).fit(X, Y)
    mu = X.mean(0); Fc = X-mu; sc = np.trace(Fc@Fc.T)/20; Fn = Fc/np.sqrt(sc); Fv = (Xv-mu)/np.sqrt(sc)
    def loss(Fq, Yq):
        KNN = Fn@Fn.T; KVN = Fq@Fn.T; KVV = Fq@Fq.T
        tn = KNN@k.pkt_; tv = KVN@k.pkt_; w = tn@np.linalg.pinv(tn.T@tn)@tv.T
        return -(np.trace(KVV-2*KVN@w+w.T@KNN@w)/np.trace(KVV) + np.linalg.norm(Yq-KVN@k.pky_)**2/np.linalg.norm(Yq)**2)
    print(nv, "train", abs(k.score(X,Y)-loss(Fn,Y)), "heldout", abs(k.score(Xv,Yv)-loss(Fv,Yv)))
