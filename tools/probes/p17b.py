import warnings; warnings.filterwarnings("ignore")
import os; os.environ["TQDM_DISABLE"]="1"
import numpy as np
rng = np.random.default_rng(1)
import skmatter.neighbors._sparsekde as M
from skmatter.neighbors import SparseKDE
from skmatter.sample_selection import FPS
def ref_cov(X, sample_weights, cell):
    totw = np.sum(sample_weights); w = sample_weights/totw
    if cell is None: xm = np.average(X, axis=0, weights=w)
    else:
        ang = X*(2*np.pi)/cell
        xm = np.arctan2(np.average(np.sin(ang),axis=0,weights=w), np.average(np.cos(ang),axis=0,weights=w))*cell/(2*np.pi)
    xxm = X - xm
    if cell is not None: xxm -= np.round(xxm/cell)*cell
    cov = (xxm*w.reshape(-1,1)).T.dot(xxm); cov /= 1 - sum(w**2); return cov
def run(patch):
    M._covariance = ref_cov if patch else ORIG
    out=[]
    for t in range(6):
        r = np.random.default_rng(t)
        cell = r.uniform(2,7,size=2); Dp = r.uniform(0,1,size=(120,2))*cell*r.uniform(0.3,1.0) + r.uniform(-3,3,size=2)
        sel = FPS(n_to_select=8).fit(Dp).selected_idx_
        Q = r.uniform(0,1,size=(5,2))*cell
        k1 = SparseKDE(Dp.copy(), None, metric_params={"cell_length": cell}, fpoints=0.3).fit(Dp[sel]); s1 = k1.score_samples(Q)
        sh = r.integers(-2,3,size=Dp.shape)*cell; Dp2 = Dp+sh
        k2 = SparseKDE(Dp2, None, metric_params={"cell_length": cell}, fpoints=0.3).fit(Dp2[sel]); s2 = k2.score_samples(Q)
        out.append(np.abs(s1-s2).max())
    return out
ORIG = M._covariance
print("orig   ", np.round(run(False),4))
print("patched", np.round(run(True),12))
