import warnings; warnings.filterwarnings("ignore")
import numpy as np
from skmatter.linear_model import OrthogonalRegression as OR
from skmatter.metrics import local_prediction_rigidity as lpr, componentwise_prediction_rigidity as cpr
from scipy.stats import ortho_group
rng = np.random.default_rng(0); bad=[]
for t in range(200):
    n=int(rng.integers(6,30)); f=int(rng.integers(1,7)); p=int(rng.integers(1,7))
    X = rng.normal(size=(n,f)); Y = rng.normal(size=(n,p))
    for proj in (True, False):
        o = OR(use_orthogonal_projector=proj).fit(X,Y); W = o.coef_.T
        pr = o.predict(X)
        if proj:
            sv = np.linalg.svd(W, compute_uv=False)
            if np.abs(sv[sv>1e-8]-1).max(initial=0)>1e-8: bad.append(("C18 partial iso",t,sv))
            if (np.linalg.norm(pr,axis=1) > np.linalg.norm(X,axis=1)+1e-9).any(): bad.append(("C18 norm",t))
            res = np.linalg.norm(Y-pr)
            from sklearn.linear_model import LinearRegression
            C = LinearRegression().fit(X,Y).coef_.T.reshape(f,-1); U,_,Vt = np.linalg.svd(C, full_matrices=False); r=U.shape[1]
            for _ in range(20):
                R = ortho_group.rvs(r, random_state=rng) if r>1 else np.array([[rng.choice([-1.,1.])]])
                if np.linalg.norm(Y-X@U@R@Vt) < res-1e-9: bad.append(("C18 opt proj",t)); break
        else:
            mc = max(f,p)
            if W.shape!=(mc,mc) or np.abs(W.T@W-np.eye(mc)).max()>1e-9: bad.append(("C18 orth",t))
            Xp = np.pad(X,[(0,0),(0,mc-f)]); Yp = np.pad(Y,[(0,0),(0,mc-p)]); res = np.linalg.norm(Yp-pr)
            for _ in range(20):
                R = ortho_group.rvs(mc, random_state=rng) if mc>1 else np.array([[rng.choice([-1.,1.])]])
                if np.linalg.norm(Yp-Xp@R) < res-1e-9: bad.append(("C18 opt pad",t)); break
    # recovery
    mc = max(f,p); Q = ortho_group.rvs(mc, random_state=rng) if mc>1 else np.array([[1.]])
    if f<=p:
        Yq = (np.pad(X,[(0,0),(0,mc-f)])@Q)[:, :p] if f==p else np.pad(X,[(0,0),(0,mc-f)])@Q
        o = OR(use_orthogonal_projector=False).fit(X,Yq)
        if np.linalg.norm(np.pad(Yq,[(0,0),(0,mc-Yq.shape[1])])-o.predict(X))>1e-8: bad.append(("C18 rec pad",t,f,p))
    Yq = X@Q[:f,:p] if f<=p else X@Q[:, :p]
    o = OR(use_orthogonal_projector=True).fit(X,Yq)
    if f<=p or True:
        if np.linalg.norm(Yq-o.predict(X))>1e-8*np.linalg.norm(Yq) and (f<=p or f>p): bad.append(("C18 rec proj",t,f,p,np.linalg.norm(Yq-o.predict(X))))
print("C18", bad[:8], len(bad))
bad=[]
for t in range(100):
    d=int(rng.integers(2,8)); ns=int(rng.integers(2,12)); Xtr=[rng.normal(size=(int(rng.integers(1,6)),d))*3 for _ in range(ns)]; Xte=[rng.normal(size=(int(rng.integers(1,6)),d)) for _ in range(int(rng.integers(1,5)))]
    alpha = 10.0**rng.integers(-6,3)
    L, rd = lpr(Xtr,Xte,alpha)
    A = np.vstack(Xtr); sf = np.sqrt((A**2).mean(0).sum()); S = np.vstack([x.mean(0) for x in Xtr])/sf
    Minv = np.linalg.inv(S.T@S+alpha*np.eye(d))
    for Li, xt in zip(L, Xte):
        ref = 1/np.einsum('ij,jk,ik->i', xt/sf, Minv, xt/sf)
        if Li.shape!=ref.shape or np.abs(Li-ref).max()>1e-6*ref.max(): bad.append(("C20 lpr",t, np.abs(Li-ref).max()/ref.max()))
    L2,_ = lpr([x*7 for x in Xtr],[x*7 for x in Xte],alpha)
    if max(np.abs(a-b).max()/a.max() for a,b in zip(L,L2))>1e-8: bad.append(("C20 scale",t))
    L3,_ = lpr(Xtr,Xte,alpha*10)
    if any((b<a*(1-1e-10)).any() for a,b in zip(L,L3)): bad.append(("C20 mono",t))
    C, LC, rd2 = cpr(Xtr,Xte,alpha,np.array([d]))
    if max(np.abs(a-b[:,0]).max()/a.max() for a,b in zip(L,LC))>1e-8: bad.append(("C20 lcpr=lpr",t))
    k = int(rng.integers(1,d)); C, LC, _ = cpr(Xtr,Xte,alpha,np.array([k,d-k]))
    for i,xt in enumerate(Xte):
        if len(xt)==1 and np.abs(C[i]-LC[i][0]).max()>1e-8*C[i].max(): bad.append(("C20 cpr1",t))
        for ci,(lo,hi) in enumerate([(0,k),(k,d)]):
            xm = np.zeros_like(xt); xm[:,lo:hi]=xt[:,lo:hi]
            ref = 1/np.einsum('ij,jk,ik->i', xm/sf, Minv, xm/sf)
            if np.abs(LC[i][:,ci]-ref).max()>1e-6*ref.max(): bad.append(("C20 lcpr",t))
    if rd != d-np.linalg.matrix_rank(S.T@S+alpha*np.eye(d)): bad.append(("C20 rank",t))
print("C20", bad[:8], len(bad))
