import warnings; warnings.filterwarnings("ignore")
import numpy as np
import skmatter.sample_selection._voronoi_fps as V
from skmatter import sample_selection as ss
rng = np.random.default_rng(0)
orig = V.VoronoiFPS._update_post_selection
log = []
def spy(self, X, y, last):
    r = orig(self, X, y, last); log.append((int(last), self.hausdorff_.copy(), int(self.n_selected_))); return r
V.VoronoiFPS._update_post_selection = spy
bad=0; tot=0; steps=0
for trial in range(300):
    n = int(rng.integers(4, 80)); m = int(rng.integers(2, 6)); kind = rng.integers(4)
    X = rng.normal(size=(n,m))
    if kind==1: X = rng.integers(-3,4,size=(n,m)).astype(float)
    if kind==2: X = rng.normal(size=(n,m))*0.05 + rng.integers(0,5,size=(n,1))*10
    if kind==3: X[n//2:] = X[:n - n//2]
    D = ((X[:,None,:]-X[None,:,:])**2).sum(-1); tol = 1e-9*max(D.max(),1e-300)
    nts = [None, float(rng.uniform(0.1,1.0)), int(rng.integers(1,n+1))][rng.integers(3)]
    ff = [None, 1e-9, 0.1, 0.5, 1.0][rng.integers(5)]
    init = "random" if rng.random()<.3 else int(rng.integers(n))
    log.clear()
    try:
        v = ss.VoronoiFPS(n_to_select=nts if not isinstance(nts,int) else max(1,nts//2), initialize=init, full_fraction=ff, random_state=int(rng.integers(100)))
        v.fit(X)
        if isinstance(nts,int) and nts > max(1,nts//2):
            v.n_to_select = nts; v.fit(X, warm_start=True)
    except Exception as e: print(trial, "EXC", type(e).__name__, str(e)[:90], nts, ff); bad+=1; continue
    sel=[]
    for (last, table, ns) in log:
        sel.append(last); md = D[:, sel].min(1); steps+=1
        if np.abs(table-md).max()>tol: print(trial, "table mismatch at step", len(sel), np.abs(table-md).max()); bad+=1; break
    if sel != list(v.selected_idx_): print(trial, "trace != selected", sel, v.selected_idx_); bad+=1
    tot+=1
print("tot",tot,"bad",bad,"steps",steps)
