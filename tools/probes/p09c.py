import warnings; warnings.filterwarnings("ignore")
import os; os.environ["TQDM_DISABLE"]="1"
import numpy as np, traceback
from skmatter import feature_selection as fs, sample_selection as ss
from skmatter.decomposition import PCovR, KernelPCovR
from skmatter.preprocessing import StandardFlexibleScaler as SFS, KernelNormalizer as KN, SparseKernelCenterer as SKC
from skmatter.linear_model import Ridge2FoldCV, OrthogonalRegression
from skmatter.clustering import QuickShift
from skmatter.neighbors import SparseKDE
from skmatter.metrics import *
from skmatter.utils import X_orthogonalizer, Y_feature_orthogonalizer, Y_sample_orthogonalizer, pcovr_covariance, pcovr_kernel
rng = np.random.default_rng(0)
def variants(a):
    a = np.asarray(a)
    out = {"C": a.copy(), "F": np.asfortranarray(a.copy())}
    big = np.zeros(tuple(2*s for s in a.shape), a.dtype); v = big[tuple(slice(None,None,2) for _ in a.shape)]; v[...] = a; out["view"] = v
    return out
def run(name, fn, **arrs):
    for lay in ("C","F","view"):
        for ro in (False, True):
            args = {}; snaps = {}
            for k,a in arrs.items():
                if isinstance(a, np.ndarray):
                    v = variants(a)[lay]; snaps[k] = v.copy()
                    if ro: v.setflags(write=False)
                    args[k] = v
                else: args[k]=a
            try: fn(**args)
            except Exception as e:
                print(name, lay, "ro" if ro else "rw", "EXC", type(e).__name__, str(e)[:80]); continue
            for k in snaps:
                if not np.array_equal(args[k], snaps[k]): print(name, lay, "ro" if ro else "rw", "MUTATED", k)
X = rng.normal(size=(12,7)); y = rng.normal(size=12); Y2 = rng.normal(size=(12,2)); w = rng.random(12)+.1
Xc = X - X.mean(0)
for mod in (fs, ss):
    nm = mod.__name__.split('.')[1][:4]
    run(nm+".FPS", lambda X,y: mod.FPS(n_to_select=3).fit(X,y), X=X, y=y)
    run(nm+".FPSinit", lambda X,init: mod.FPS(n_to_select=4, initialize=init).fit(X), X=X, init=np.array([1,3]))
    run(nm+".CUR", lambda X,y: mod.CUR(n_to_select=3).fit(X,y), X=X, y=y)
    run(nm+".PCovFPS", lambda X,y: mod.PCovFPS(n_to_select=3).fit(X,y), X=X, y=y)
    run(nm+".PCovCUR", lambda X,y: mod.PCovCUR(n_to_select=3).fit(X,y), X=X, y=y)
run("feat.FPS.transform", lambda X: fs.FPS(n_to_select=3).fit(X).transform(X), X=X)
run("VFPS", lambda X: ss.VoronoiFPS(n_to_select=4, full_fraction=0.3).fit(X), X=X)
run("DCH", lambda X,y: (lambda m: (m.score_samples(X,y), m.score_feature_matrix(X)))(ss.DirectionalConvexHull(low_dim_idx=[0,1]).fit(X,y)), X=X, y=y)
run("PCovR", lambda X,Y: (lambda m: (m.transform(X), m.predict(X), m.score(X,Y), m.inverse_transform(m.transform(X))))(PCovR(n_components=2).fit(X,Y)), X=Xc, Y=Y2)
run("PCovR pre", lambda X,Y,W: PCovR(n_components=2, regressor="precomputed", space="sample").fit(X,Y,W), X=Xc, Y=Xc@rng.normal(size=(7,2)), W=rng.normal(size=(7,2)))
run("KPCovR", lambda X,Y: (lambda m: (m.transform(X), m.predict(X), m.score(X,Y)))(KernelPCovR(n_components=2, kernel="rbf", center=True).fit(X,Y)), X=Xc, Y=Y2)
K = X@X.T
run("KPCovR pre", lambda K,Y: (lambda m: (m.transform(K), m.predict(K)))(KernelPCovR(n_components=2, kernel="precomputed").fit(K,Y)), K=K, Y=Y2)
run("SFS", lambda X,w: (lambda m: (m.transform(X), m.inverse_transform(m.transform(X))))(SFS(column_wise=True).fit(X, sample_weight=w)), X=X, w=w)
run("SFS copy", lambda X,w: SFS(copy=True).fit(X, sample_weight=w).transform(X), X=X, w=w)
run("KN", lambda K,w: (lambda m: m.transform(K))(KN().fit(K, sample_weight=w)), K=K, w=w)
run("KN ft", lambda K: KN().fit_transform(K), K=K)
run("SKC", lambda Knm,Kmm,w: SKC().fit(Knm,Kmm,sample_weight=w).transform(Knm), Knm=K[:, :4], Kmm=K[:4,:4], w=w)
run("R2F", lambda X,Y,al: Ridge2FoldCV(alphas=al, alpha_type="relative", random_state=0).fit(X,Y).predict(X), X=X, Y=Y2, al=np.array([0.1,0.5]))
run("OR", lambda X,Y: OrthogonalRegression().fit(X,Y).predict(X), X=X, Y=Y2)
run("ORpad", lambda X,Y: OrthogonalRegression(use_orthogonal_projector=False).fit(X,Y).predict(X), X=X, Y=Y2)
run("QS", lambda X,c,w: QuickShift(c, scale=1.0).fit(X, samples_weight=w), X=X[:, :2], c=np.full(12, 3.0), w=w)
run("QS gab cell", lambda X,w,cell: QuickShift(gabriel_shell=2, metric_params={"cell_length": cell}).fit(X, samples_weight=w), X=X[:, :2], w=w, cell=np.array([3.,4.]))
run("SKDE", lambda D,w,G,Q: SparseKDE(D, w, fpoints=0.5).fit(G).score_samples(Q), D=X[:, :2], w=np.ones(12)/12, G=X[:4,:2], Q=X[5:8,:2]+.1)
run("SKDE cell", lambda D,G,Q,cell: SparseKDE(D, None, metric_params={"cell_length":cell}, fpoints=0.5).fit(G).score_samples(Q), D=X[:, :2], G=X[:4,:2], Q=X[5:8,:2]+.1, cell=np.array([3.,4.]))
run("GRE", lambda X,Y: global_reconstruction_error(X,Y), X=X, Y=Y2)
run("GRD", lambda X,Y: global_reconstruction_distortion(X,Y), X=X[:, :2], Y=Y2)
run("LRE", lambda X,Y,tr,te: local_reconstruction_error(X,Y,3,train_idx=tr,test_idx=te), X=X, Y=Y2, tr=np.arange(8), te=np.arange(6,12))
run("ppd", lambda X,Y,cell: periodic_pairwise_euclidean_distances(X,Y,cell_length=cell), X=X[:, :2], Y=X[:5, :2], cell=np.array([3.,4.]))
run("pmd", lambda X,Y,P,cell: pairwise_mahalanobis_distances(X,Y,P,cell), X=X[:, :2], Y=X[:5, :2], P=np.array([[[2.,.3],[.3,1.]]]), cell=np.array([3.,4.]))
run("lpr", lambda A,B,T: local_prediction_rigidity([A,B],[T],0.1), A=X[:5], B=X[5:], T=X[:3])
run("cpr", lambda A,B,T,cd: componentwise_prediction_rigidity([A,B],[T],0.1,cd), A=X[:5], B=X[5:], T=X[:3], cd=np.array([3,4]))
run("Xorth copy", lambda x1: X_orthogonalizer(x1, c=1, copy=True), x1=X)
run("Xorth x2 copy", lambda x1,x2: X_orthogonalizer(x1, x2=x2, copy=True), x1=X, x2=X[:, :2].copy())
run("Yforth", lambda y,X: Y_feature_orthogonalizer(y, X), y=Y2, X=X[:, :3])
run("Ysorth", lambda y,X,yr,Xr: Y_sample_orthogonalizer(y, X, yr, Xr), y=Y2, X=X, yr=Y2[:4], Xr=X[:4])
run("pcov", lambda X,Y: (pcovr_covariance(0.5,X,Y), pcovr_kernel(0.5,X,Y)), X=X, Y=Y2)
print("done")
