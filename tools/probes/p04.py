import warnings; warnings.filterwarnings("ignore")
import numpy as np
from sklearn.linear_model import Ridge, LinearRegression
from skmatter.decomposition import PCovR
rng = np.random.default_rng(0); bad=[]; tot=0
for trial in range(120):
    n = int(rng.integers(6, 30)); m = int(rng.integers(3, 30)); p = int(rng.integers(1,4))
    X = rng.normal(size=(n,m))*np.logspace(0,-2,m); X -= X.mean(0); Y = X@rng.normal(size=(m,p)) + 0.3*rng.normal(size=(n,p)); Y -= Y.mean(0)
    rk = min(n-1,m); k = int(rng.integers(1, rk)) if rk>1 else 1
    space = ["feature","sample"][rng.integers(2)]
    grid = np.linspace(0,1,9); lx=[]; ly=[]
    reg = LinearRegression(fit_intercept=False)
    for a in grid:
        e = PCovR(mixing=a, n_components=k, space=space, regressor=reg, svd_solver="full").fit(X,Y); T = e.transform(X)
        lx.append(np.linalg.norm(X-e.inverse_transform(T))**2); ly.append(np.linalg.norm(Y-e.predict(X).reshape(Y.shape))**2)
    lx, ly = np.array(lx), np.array(ly)
    if (np.diff(lx) > 1e-8*np.linalg.norm(X)**2).any(): bad.append(("lx mono", trial, space, lx))
    if (np.diff(ly) < -1e-8*np.linalg.norm(Y)**2).any(): bad.append(("ly mono", trial, space, ly))
    # mixing 0, k>=p: predictions equal LR
    if rk >= p:
        e = PCovR(mixing=0.0, n_components=max(p,1), space=space, regressor=reg, svd_solver="full").fit(X,Y)
        lr = LinearRegression(fit_intercept=False).fit(X,Y).predict(X)
        if np.abs(e.predict(X).reshape(lr.shape)-lr).max()>1e-6*np.abs(Y).max(): bad.append(("mix0", trial, space, n,m,p, np.abs(e.predict(X).reshape(lr.shape)-lr).max()))
    # nestedness
    if k+1 <= rk:
        a = float(rng.choice([0.2,0.5,1.0]))
        e1 = PCovR(mixing=a, n_components=k, space=space, svd_solver="full").fit(X,Y); e2 = PCovR(mixing=a, n_components=k+1, space=space, svd_solver="full").fit(X,Y)
        if np.abs(e1.transform(X)-e2.transform(X)[:,:k]).max()>1e-7*np.abs(e1.transform(X)).max(): bad.append(("nested", trial))
        # solvers
        for solver in ("arpack","randomized"):
            try:
                es = PCovR(mixing=a, n_components=k, space=space, svd_solver=solver, random_state=0, iterated_power=30).fit(X,Y)
                T1, T2 = e1.transform(X), es.transform(X); s = np.sign((T1*T2).sum(0))
                if np.abs(T1-T2*s).max()>1e-5*np.abs(T1).max(): bad.append(("solver", solver, trial, space, (n,m,k), np.abs(T1-T2*s).max()/np.abs(T1).max()))
            except Exception as ex: bad.append(("solver EXC", solver, type(ex).__name__, str(ex)[:80]))
    tot+=1
print("tot",tot,"bad",len(bad)); 
for b in bad[:12]: print(b[:7])
