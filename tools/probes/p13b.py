import warnings; warnings.filterwarnings("ignore")
import numpy as np
from scipy.stats import ortho_group
from skmatter.metrics import *
from skmatter.linear_model import Ridge2FoldCV
rng = np.random.default_rng(0); bad=[]; tot=0
for t in range(60):
    n=int(rng.integers(12,50)); f=int(rng.integers(2,7)); p=int(rng.integers(2,7))
    X = rng.normal(size=(n,f))*np.logspace(0,-1,f); Y = np.tanh(X@rng.normal(size=(f,p)))+0.2*rng.normal(size=(n,p))
    Q = ortho_group.rvs(f, random_state=rng); R = ortho_group.rvs(p, random_state=rng)
    est = lambda: Ridge2FoldCV(alphas=np.geomspace(1e-9,0.9,20), alpha_type="relative", regularization_method="cutoff", random_state=0, shuffle=True, scoring="neg_mean_squared_error")
    fns = {"GRE": lambda a,b,**k: global_reconstruction_error(a,b,**k), "LRE": lambda a,b,**k: local_reconstruction_error(a,b,n_local_points=min(8,n//2),**k)}
    if f<=p: fns["GRD"] = lambda a,b,**k: global_reconstruction_distortion(a,b,**k)
    for nm,fn in fns.items():
        base = fn(X,Y,estimator=est())
        for lab,(a,b) in {"rotX":(X@Q,Y),"scaleX":(X*3.7,Y),"shiftX":(X+5.0,Y),"scaleY":(X,Y*0.2),"shiftY":(X,Y-3),"rotY":(X,Y@R)}.items():
            v = fn(a,b,estimator=est())
            if abs(v-base)>1e-7*max(1,base): bad.append((nm,lab,t,base,v))
        pw = {"GRE":pointwise_global_reconstruction_error,"GRD":pointwise_global_reconstruction_distortion}.get(nm)
        if pw is not None:
            pv = pw(X,Y,estimator=est())
            if (pv<0).any() or abs(np.sqrt((pv**2).mean())-base)>1e-10: bad.append((nm,"rms",t))
    tot+=1
print("tot",tot,"bad",len(bad))
for b in bad[:15]: print(b)
