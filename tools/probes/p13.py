import warnings; warnings.filterwarnings("ignore")
import numpy as np
rng = np.random.default_rng(1)
from skmatter.metrics import *
X = rng.normal(size=(40,5)); Y = rng.normal(size=(40,3))
for f,a,b in [("GRD X wider", X, Y), ("GRD X narrower", Y, X), ("GRD eq", X, X@np.linalg.qr(rng.normal(size=(5,5)))[0])]:
    try: print(f, global_reconstruction_distortion(a,b))
    except Exception as e: print(f, "EXC", type(e).__name__, e)
print("GRE XA", global_reconstruction_error(X, X@rng.normal(size=(5,3))), global_reconstruction_error(X, X@rng.normal(size=(5,8))))
tr = np.arange(40)
print("GRE train<=1", global_reconstruction_error(X, Y, train_idx=tr, test_idx=tr))
from sklearn.linear_model import Ridge
e = Ridge(alpha=1e-3, fit_intercept=False)
a = pointwise_local_reconstruction_error(X, Y, 20, train_idx=np.arange(20), test_idx=np.arange(20,40), estimator=e)
b = pointwise_global_reconstruction_error(X, Y, train_idx=np.arange(20), test_idx=np.arange(20,40), estimator=e)
print("LRE==GRE", np.abs(a-b).max())
Xa = X.copy(); Ya = Y.copy()
global_reconstruction_error(Xa, Ya); local_reconstruction_error(Xa, Ya, 5); print("mut", np.array_equal(Xa,X), np.array_equal(Ya,Y))
