import warnings; warnings.filterwarnings("ignore")
import os; os.environ["TQDM_DISABLE"]="1"
import numpy as np, time
import skmatter.neighbors._sparsekde as M
from skmatter.neighbors import SparseKDE
from skmatter.sample_selection import FPS
calls=[]
orig = M.oas
def spy(cov, n, D):
    tr=np.trace(cov); tr2=tr**2; tc=np.trace(cov**2); phi=((1-2/D)*tc+tr2)/((n+1-2/D)*tc - tr2/D)
    r = orig(cov, n, D); calls.append((phi, n, np.linalg.eigvalsh((r+r.T)/2).min(), np.linalg.eigvalsh(cov).min())); return r
M.oas = spy
rng = np.random.default_rng(0); res=[]; t0=time.time(); exc=0
for t in range(150):
    d = int(rng.integers(1,4)); N = int(rng.integers(30,200)); Mg = int(rng.integers(3,15))
    D = np.vstack([rng.normal(size=(N//2,d))*rng.uniform(0.2,2,size=d), rng.normal(size=(N-N//2,d))*rng.uniform(0.2,2,size=d)+rng.uniform(2,6)])
    G = D[FPS(n_to_select=Mg).fit(D).selected_idx_] if d>1 else D[rng.permutation(N)[:Mg]]
    kw = {"fpoints": float(rng.uniform(0.02,0.9))} if rng.random()<.5 else {"fspread": float(rng.uniform(0.05,3))}
    calls.clear()
    try: k = SparseKDE(D, None, **kw).fit(G)
    except Exception as e: exc+=1; print(t, kw, "EXC", type(e).__name__, str(e)[:80]); continue
    for (phi,n,mine,covmin),h in zip(calls, k.bandwidth_):
        res.append((phi, n, np.linalg.eigvalsh(h).min(), covmin, list(kw)[0]))
res = np.array([(a,b,c,d_) for a,b,c,d_,_ in res])
npd = res[:,2] <= 0
print("models time", time.time()-t0, "bandwidths", len(res), "nonPD", npd.sum(), "exc", exc)
print("nonPD with phi in [0,1]:", ((res[npd,0]>=0)&(res[npd,0]<=1)).sum())
print("phi outside [0,1] but PD:", ((~npd)&((res[:,0]<0)|(res[:,0]>1))).sum())
print("phi range nonPD", res[npd,0].min() if npd.any() else None, res[npd,0].max() if npd.any() else None, "nlocal range", res[npd,1].min() if npd.any() else None, res[npd,1].max() if npd.any() else None)
