import warnings; warnings.filterwarnings("ignore")
import numpy as np
from skmatter import feature_selection as fs, sample_selection as ss
rng = np.random.default_rng(0)
def resid_norm(X, idx, axis):
    A = X if axis==1 else X.T
    Q,_ = np.linalg.qr(A[:, idx]); R = A - Q@(Q.T@A); return (R**2).sum()/(A**2).sum()
stats = {"FPS":[], "CUR":[]}; fresh_dups = 0; n=0
for t in range(400):
    nn, m = rng.integers(4,14,size=2); kind = rng.integers(4)
    r = int(rng.integers(1, min(nn,m)))
    if kind==0: X = rng.normal(size=(nn,r))@rng.normal(size=(r,m))
    elif kind==1: X = rng.integers(-1,2,size=(nn,m)).astype(float)
    elif kind==2: X = np.repeat(rng.normal(size=(max(2,nn//2),m)),2,axis=0)[:nn]
    else: X = (rng.normal(size=(nn,r))@rng.normal(size=(r,m)))*10.0**rng.integers(-3,4,size=m)
    y = rng.normal(size=X.shape[0])
    for mod in (fs, ss):
        axis = 1 if mod is fs else 0; N = X.shape[axis]
        for cls in ("FPS","CUR","PCovCUR","PCovFPS"):
            kw = dict(n_to_select=int(N))
            try: s = getattr(mod,cls)(**kw).fit(X,y)
            except Exception as e: continue
            idx = list(s.selected_idx_); n+=1
            seen=set()
            for tt,i in enumerate(idx):
                if i in seen:
                    if cls in ("FPS",):
                        A = X if axis==0 else X.T; D = ((A[:,None,:]-A[None,:,:])**2).sum(-1); un = [j for j in range(N) if j not in seen]
                        stats["FPS"].append(D[un][:, idx[:tt]].min(1).max()/max(D.max(),1e-300))
                    elif cls in ("CUR","PCovCUR"):
                        stats["CUR"].append(resid_norm(X, idx[:tt], axis))
                    break
                seen.add(i)
for k,v in stats.items():
    v = np.array(v); print(k, len(v), "max rel score at first duplicate:", v.max() if len(v) else None, "quantiles", np.quantile(v,[.5,.9,.99]) if len(v) else None)
print("fits", n)
print("---- investigate non-exhausted duplicates")
rng = np.random.default_rng(0)
for t in range(400):
    nn, m = rng.integers(4,14,size=2); kind = rng.integers(4)
    r = int(rng.integers(1, min(nn,m)))
    if kind==0: X = rng.normal(size=(nn,r))@rng.normal(size=(r,m))
    elif kind==1: X = rng.integers(-1,2,size=(nn,m)).astype(float)
    elif kind==2: X = np.repeat(rng.normal(size=(max(2,nn//2),m)),2,axis=0)[:nn]
    else: X = (rng.normal(size=(nn,r))@rng.normal(size=(r,m)))*10.0**rng.integers(-3,4,size=m)
    y = rng.normal(size=X.shape[0])
    for mod in (fs, ss):
        axis = 1 if mod is fs else 0; N = X.shape[axis]
        for cls in ("CUR","PCovCUR"):
            s = getattr(mod,cls)(n_to_select=int(N)).fit(X,y); idx=list(s.selected_idx_); seen=set()
            for tt,i in enumerate(idx):
                if i in seen:
                    rn = resid_norm(X, idx[:tt], axis)
                    if rn > 1e-20: print(t, kind, mod.__name__.split('.')[1], cls, X.shape, "rank", np.linalg.matrix_rank(X), "step", tt, "resid", rn, idx[:tt+1])
                    break
                seen.add(i)
