import warnings; warnings.filterwarnings("ignore")
import numpy as np
from skmatter import feature_selection as fs, sample_selection as ss
rng = np.random.default_rng(0); tot=0; nb=0; amb=0
def resid(X, idx, axis):
    A = X if axis==1 else X.T   # select columns of A
    if len(idx)==0: R = A.copy()
    else:
        Q,_ = np.linalg.qr(A[:, idx]); R = A - Q@(Q.T@A)
    return R if axis==1 else R.T
def pi_oracle(cls, mod, Xr, yr, k, mixing):
    axis = 1 if mod is fs else 0
    if cls=="CUR":
        U,s,Vt = np.linalg.svd(Xr, full_matrices=False)
        gap = (s[k-1]-s[k])/s[0] if k < len(s) else 1.0
        pi = (Vt[:k]**2).sum(0) if axis==1 else (U[:,:k]**2).sum(1)
        return pi, gap
    if axis==0: M = mixing*Xr@Xr.T + (1-mixing)*yr@yr.T
    else:
        C = Xr.T@Xr; w,U = np.linalg.eigh(C); keep = w>1e-12; Ci=(U[:,keep]/np.sqrt(w[keep]))@U[:,keep].T; Z=Ci@Xr.T@yr; M = mixing*C+(1-mixing)*Z@Z.T
    w,U = np.linalg.eigh(M); w=w[::-1]; U=U[:,::-1]
    gap = (w[k-1]-w[k])/w[0] if k < len(w) else 1.0
    return (U[:,:k]**2).sum(1), gap
for trial in range(120):
    n = int(rng.integers(8, 14)); m = int(rng.integers(8, 14))
    X = rng.normal(size=(n,m)) * 10.0**rng.integers(-1,2); y = (X @ rng.normal(size=m) + rng.normal(size=n)).reshape(-1,1)
    for mod in (fs, ss):
      for cls in ("CUR","PCovCUR"):
        axis = 1 if mod is fs else 0; N = X.shape[axis]
        k = int(rng.integers(1,4)); re = int(rng.integers(0,4)); nsel = int(rng.integers(1, 6)); mixing = float(rng.choice([0.,0.3,0.5,1.0]))
        kw = dict(n_to_select=nsel, k=k, recompute_every=re)
        if cls=="PCovCUR": kw["mixing"]=mixing
        s = getattr(mod, cls)(**kw)
        # wrap score to record pi at each step
        rec = []
        orig = s.score
        def spy(X_, y_=None, _o=orig, _s=s): r = _o(X_, y_); rec.append((r.copy(), _s.n_selected_)); return r
        s.score = spy
        try: s.fit(X, y.ravel()) if cls=="PCovCUR" else s.fit(X)
        except Exception as e: print(trial, cls, kw, "EXC", type(e).__name__, str(e)[:100]); nb+=1; continue
        idx = list(s.selected_idx_); bad=[]; last_refresh=0
        for t,(pi_rep, nsel_t) in enumerate(rec):
            # pi as of most recent refresh
            if re!=0 and t % re == 0: last_refresh = t
            if re==0: last_refresh = 0
            sel_r = idx[:last_refresh]
            Xr = resid(X, sel_r, axis)
            if cls=="PCovCUR":
                if axis==1: 
                    A = X[:, sel_r]; yr = y - A@np.linalg.lstsq(A, y, rcond=None)[0] if sel_r else y.copy()
                else:
                    yr = y - X@np.linalg.lstsq(X[sel_r], y[sel_r], rcond=None)[0] if sel_r else y.copy()
            else: yr=None
            pio, gap = pi_oracle(cls, mod, Xr, yr, k, mixing)
            if gap < 1e-6: amb+=1; break
            pio = pio.copy(); pio[idx[:t]] = 0
            un = np.setdiff1d(np.arange(N), idx[:t])
            if pio[idx[t]] < pio[un].max() - 1e-7: bad.append(("notmax", t, pio[idx[t]], pio[un].max(), "lastrefresh", last_refresh)); break
            if np.abs(pi_rep[un]-pio[un]).max() > 1e-6: bad.append(("pi", t, np.abs(pi_rep[un]-pio[un]).max())); break
        if re!=0:
            Xr = resid(X, idx, axis)
            if np.abs(s.X_current_-Xr).max() > 1e-8*np.abs(X).max(): bad.append(("Xcurrent", np.abs(s.X_current_-Xr).max()))
        tot+=1
        if bad: nb+=1; print(trial, mod.__name__.split('.')[1], cls, kw, X.shape, bad)
print("tot",tot,"bad",nb,"ambiguous",amb)
