import warnings; warnings.filterwarnings("ignore")
import numpy as np
rng = np.random.default_rng(1)
from skmatter.linear_model import Ridge2FoldCV
from sklearn.metrics import r2_score, mean_squared_error
n, m = 30, 6
X = rng.normal(size=(n,m)); X[:,5] = X[:,4]  # duplicate col
y = X @ rng.normal(size=(m,2)) + 0.1*rng.normal(size=(n,2))
f1 = np.arange(0, n, 2); f2 = np.arange(1, n, 2)
def oracle(alpha, method, scorer):
    out = []
    for tr, te in ((f1,f2),(f2,f1)):
        U,s,Vt = np.linalg.svd(X[tr], full_matrices=False)
        keep = s > 1e-10*s[0]
        if method == "tikhonov": d = s/(s**2+alpha)
        else: d = np.where(s>alpha, 1/s, 0.)
        d = np.where(keep, d, 0.)
        W = (Vt.T*d) @ (U.T @ y[tr])
        out.append(scorer(y[te], X[te]@W))
    return np.mean(out)
for scoring, sc in [(None, lambda a,b: -mean_squared_error(a,b)), ("r2", r2_score)]:
  for method in ("tikhonov", "cutoff"):
    alphas = np.array([1e-6, 1e-2, 1.0, 100.])
    r = Ridge2FoldCV(alphas=alphas, regularization_method=method, cv=[(f1,f2)], scoring=scoring).fit(X,y)
    print(scoring, method, "cv", np.array(r.cv_values_), "oracle", np.array([oracle(a, method, sc) for a in alphas]), "alpha_", r.alpha_, "|coef|", np.abs(r.coef_).max())
# rank deficient + tiny alpha: coefficient bound
r = Ridge2FoldCV(alphas=np.array([0.0, 0.5]), alpha_type="relative", regularization_method="cutoff", cv=[(f1,f2)]).fit(X,y); print("cutoff rel0: |coef|", np.abs(r.coef_).max(), r.alpha_)
r = Ridge2FoldCV(alphas=np.array([1e-30]), regularization_method="tikhonov", cv=[(f1,f2)]).fit(X,y); print("tik 1e-30: |coef|", np.abs(r.coef_).max())
r = Ridge2FoldCV(alphas=np.array([1e-30]), regularization_method="cutoff", cv=[(f1,f2)]).fit(X,y); print("cut 1e-30: |coef|", np.abs(r.coef_).max())
print("svals", np.linalg.svd(X, compute_uv=False))
