import warnings; warnings.filterwarnings("ignore")
import numpy as np
from scipy.optimize import linprog
from skmatter.sample_selection import DirectionalConvexHull as DCH
rng = np.random.default_rng(0); tot=0; nb=0
def lower_vertex(P, y, i, tol=1e-9):
    # is y_i strictly below every convex combination of others at same position?
    oth = [j for j in range(len(y)) if j!=i]
    A = np.vstack([P[oth].T, np.ones(len(oth))]); b = np.append(P[i], 1.0)
    r = linprog(y[oth], A_eq=A, b_eq=b, bounds=(0,None), method="highs")
    if r.status==2: return True, np.inf
    return (r.fun > y[i] + tol), r.fun - y[i]
def hull_height(P, y, q):
    A = np.vstack([P.T, np.ones(len(y))]); b = np.append(q, 1.0)
    r = linprog(y, A_eq=A, b_eq=b, bounds=(0,None), method="highs")
    return r.fun if r.status==0 else None
for trial in range(150):
    d = int(rng.integers(1,4)); h = int(rng.integers(0,4)); n = int(rng.integers(d+3, 40))
    P = rng.normal(size=(n,d)); H = rng.normal(size=(n,h))
    kind = rng.integers(3)
    y = (P**2).sum(1) + 0.5*rng.normal(size=n) if kind==0 else (rng.normal(size=n) if kind==1 else -(P**2).sum(1)+0.3*rng.normal(size=n))
    cols = rng.permutation(d+h); low = [int(np.flatnonzero(cols==c)[0]) for c in range(d)]
    X = np.zeros((n,d+h)); X[:, low] = P
    hi = [c for c in range(d+h) if c not in low]; X[:, hi] = H
    if d+h < 1: continue
    try: m = DCH(low_dim_idx=low).fit(X, y)
    except Exception as e: print(trial,"EXC",type(e).__name__,str(e)[:100],(n,d,h)); nb+=1; continue
    bad=[]; sel = set(m.selected_idx_.tolist())
    exp = set(); margins=[]
    for i in range(n):
        v, mg = lower_vertex(P, y, i); margins.append(mg)
        if v: exp.add(i)
    if min(abs(np.array(margins))) > 1e-7 and sel != exp: bad.append(("sel", sorted(sel^exp)))
    ds = m.score_samples(X, y)
    if ds.min() < -1e-9: bad.append(("below", ds.min()))
    if np.abs(ds[list(sel)]).max() > 1e-9*max(1,np.abs(y).max()): bad.append(("selnonzero", np.abs(ds[list(sel)]).max()))
    un = [i for i in range(n) if i not in sel]
    if un and ds[un].min() <= 0: bad.append(("unsel<=0", ds[un].min()))
    for i in range(n):
        hh = hull_height(P, y, P[i])
        if abs(ds[i] - (y[i]-hh)) > 1e-7*max(1,np.abs(y).max()): bad.append(("offset", i, ds[i], y[i]-hh)); break
    if h>0:
        r = m.score_feature_matrix(X)
        if np.abs(r[list(sel)]).max() > 1e-9: bad.append(("hd resid", np.abs(r[list(sel)]).max()))
    # queries inside footprint
    lam = rng.dirichlet(np.ones(n), size=10); Qp = lam@P; 
    for q in Qp:
        hh = hull_height(P,y,q)
        for off in (0.7, -0.7, 0.0):
            Xq = np.zeros((1,d+h)); Xq[0,low]=q
            v = m.score_samples(np.vstack([Xq,Xq]), np.array([hh+off, hh+off]))[0]
            if off>0 and abs(v-off)>1e-7: bad.append(("q above", v, off))
            if off<0 and not v<0: bad.append(("q below", v, off))
    # invariances
    a, b = rng.uniform(0.1,5), rng.normal()
    m2 = DCH(low_dim_idx=low).fit(X, a*y+b)
    if set(m2.selected_idx_.tolist()) != sel: bad.append("affine sel")
    elif np.abs(m2.score_samples(X, a*y+b) - a*ds).max() > 1e-7*a*max(1,np.abs(y).max()): bad.append("affine dist")
    tot+=1
    if bad: nb+=1; print(trial,(n,d,h,kind),bad[:3])
print("tot",tot,"bad",nb)
