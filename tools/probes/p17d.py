import warnings; warnings.filterwarnings("ignore")
import os; os.environ["TQDM_DISABLE"]="1"
import numpy as np
import skmatter.neighbors._sparsekde as M
from skmatter.neighbors import SparseKDE
from skmatter.sample_selection import FPS
calls=[]
orig = M.oas
def spy(cov, n, D):
    tr=np.trace(cov); tr2=tr**2; tc=np.trace(cov**2); phi=((1-2/D)*tc+tr2)/((n+1-2/D)*tc - tr2/D)
    r = orig(cov, n, D); calls.append((phi, n)); return r
M.oas = spy
rng = np.random.default_rng(1)
D = np.vstack([rng.normal(size=(100,2)), rng.normal(size=(100,2))*[0.3,2]+[5,5]])
G = D[FPS(n_to_select=8).fit(D).selected_idx_]
for fsv in (0.08, 0.1, 0.15, 0.2, 0.3):
    calls.clear()
    try: k = SparseKDE(D, None, fspread=fsv).fit(G)
    except Exception as e: print(fsv, "EXC", type(e).__name__); continue
    for (phi,n),h in zip(calls,k.bandwidth_):
        e = np.linalg.eigvalsh(h).min()
        if e<=0 or phi<0 or phi>1: print(fsv, "phi", round(phi,3), "nlocal", round(n,3), "min eig", e)
