import warnings; warnings.filterwarnings("ignore")
import numpy as np
from sklearn.linear_model import Ridge, LinearRegression
from sklearn.decomposition import PCA
from skmatter.decomposition import PCovR
rng = np.random.default_rng(0); tot=0; nb=0
def sgn_eq(A,B,tol):
    s = np.sign((A*B).sum(0)); s[s==0]=1
    return np.abs(A - B*s).max() <= tol*max(1,np.abs(A).max())
for trial in range(200):
    n = int(rng.integers(4, 25)); m = int(rng.integers(2, 25)); p = int(rng.integers(1,4))
    r = min(n-1, m) if rng.random()<.7 else max(1,min(n-1,m)//2)
    X = rng.normal(size=(n,r))@rng.normal(size=(r,m)); X -= X.mean(0)
    Y = X@rng.normal(size=(m,p)) + 0.3*rng.normal(size=(n,p)); Y -= Y.mean(0)
    if p==1 and rng.random()<.5: Y = Y.ravel()
    mixing = float(rng.choice([0.0, 0.1, 0.5, 0.9, 1.0]))
    rk = np.linalg.matrix_rank(X)
    k = int(rng.integers(1, rk+1))
    reg = [None, Ridge(alpha=1e-2, fit_intercept=False), LinearRegression(fit_intercept=False)][rng.integers(3)]
    bad=[]
    try:
        f = PCovR(mixing=mixing, n_components=k, space="feature", regressor=reg, svd_solver="full").fit(X,Y)
        s = PCovR(mixing=mixing, n_components=k, space="sample", regressor=reg, svd_solver="full").fit(X,Y)
    except Exception as e:
        print(trial, (n,m,p,rk,k,mixing), "EXC", type(e).__name__, str(e)[:100]); nb+=1; continue
    # eigen gap
    Yh = f.regressor_.predict(X).reshape(n,-1)
    Kt = mixing*X@X.T+(1-mixing)*Yh@Yh.T; w = np.linalg.eigvalsh(Kt)[::-1]
    gap = (w[k-1]-(w[k] if k<len(w) else 0))/w[0]; mingap = np.min(-np.diff(w[:k+1]))/w[0] if k>=1 and len(w)>k else 1
    if mingap < 1e-6 or w[k-1]/w[0] < 1e-8: continue
    Tf, Ts = f.transform(X), s.transform(X)
    tol = 1e-6
    if not sgn_eq(Tf,Ts,tol): bad.append(("T", np.abs(np.abs(Tf)-np.abs(Ts)).max()))
    if np.abs(f.predict(X)-s.predict(X)).max() > tol*max(1,np.abs(Y).max()): bad.append(("pred", np.abs(f.predict(X)-s.predict(X)).max()))
    if np.abs(f.inverse_transform(Tf)-s.inverse_transform(Ts)).max() > tol*np.abs(X).max(): bad.append(("rec", np.abs(f.inverse_transform(Tf)-s.inverse_transform(Ts)).max()))
    for est in (f,s):
        T = est.transform(X)
        if np.abs(est.singular_values_**2 - w[:k]).max() > tol*w[0]: bad.append(("sv", est.space_))
        G = T.T@T
        if np.abs(G-np.diag(w[:k])).max() > tol*w[0]: bad.append(("orth", est.space_, np.abs(G-np.diag(w[:k])).max()))
        if np.abs(est.transform(est.inverse_transform(T))-T).max() > tol*np.abs(T).max(): bad.append(("roundtrip", est.space_, np.abs(est.transform(est.inverse_transform(T))-T).max()))
        if np.abs(est.predict(X)-est.predict(T=T)).max() > tol*max(1,np.abs(Y).max()): bad.append(("predT", est.space_))
        if np.abs(X@est.pxt_ - T).max()>tol*np.abs(T).max(): bad.append(("pxt", est.space_))
        if np.ndim(Y)==1 and (est.predict(X).ndim!=1 or est.pxy_.ndim!=1): bad.append(("1d", est.space_))
        xr = est.inverse_transform(T); yp = est.predict(T=T)
        sc = -(np.linalg.norm(X-xr)**2/np.linalg.norm(X)**2 + np.linalg.norm(Y-yp)**2/np.linalg.norm(Y)**2)
        if abs(sc-est.score(X,Y))>1e-9: bad.append(("score",))
        # objective optimality
        def obj(S):  # S orthonormal n x k
            P = S@S.T; return mixing*np.linalg.norm(X-P@X)**2 + (1-mixing)*np.linalg.norm(Yh-P@Yh)**2
        Q,_ = np.linalg.qr(T); o = obj(Q); opt = w[k:].sum()
        if abs(o-opt) > 1e-6*w.sum(): bad.append(("obj", est.space_, o, opt))
    if mixing==1.0:
        Tp = PCA(n_components=k).fit_transform(X)
        if not sgn_eq(Tf,Tp,tol): bad.append(("pca",))
    tot+=1
    if bad: nb+=1; print(trial, (n,m,p,rk,k,mixing, type(reg).__name__), bad[:4])
print("tot",tot,"bad",nb)
