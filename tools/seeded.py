#!/venv/bin/python
"""Independent seeded defects (written by sub-agents that saw only the property text).

tools/seeded.py import <ID> <a|b> <src_dir> [--name NAME]   verify a delivered defect and file it under seeded/<ID>-<x>/
tools/seeded.py run [--tier quick] [names...]                run the property's check against every filed defect
tools/seeded.py matrix                                       print the detection matrix from the meta files

Verification (import): the patch applies to a scratch copy of /repo, the repository's own
test-suite and doctests still pass with it, the demonstration fails with it and passes without.
Scratch copies live under /var/tmp and are removed afterwards.
"""

import argparse
import glob
import json
import os
import shutil
import subprocess
import sys
import tempfile

VERIF = os.path.dirname(os.path.dirname(os.path.abspath(__file__)))
SEEDED = os.path.join(VERIF, "seeded")
PY = "/venv/bin/python"


def scratch_with_patch(patch):
    """Scratch copy of /repo's HEAD with the patch applied.  A plain `git apply` is tried first; when the
    repository has moved on since the defect was written (later fix: commits touching the same lines) the
    patch is merged three-way in a temporary git worktree (removed afterwards)."""
    d = tempfile.mkdtemp(prefix="skm_seed_", dir="/var/tmp")
    dst = os.path.join(d, "repo")
    shutil.copytree("/repo", dst, ignore=shutil.ignore_patterns(".git", "__pycache__", "docs", "examples"))
    p = subprocess.run(["git", "apply", "--whitespace=nowarn", os.path.abspath(patch)], cwd=dst, capture_output=True, text=True)
    if p.returncode == 0:
        return d, dst
    shutil.rmtree(dst, ignore_errors=True)
    wt = os.path.join(d, "wt")
    subprocess.run(["git", "-C", "/repo", "worktree", "add", "-q", "--detach", wt, "HEAD"], check=True, capture_output=True)
    try:
        q = subprocess.run(["git", "apply", "--3way", "--whitespace=nowarn", os.path.abspath(patch)], cwd=wt, capture_output=True, text=True)
        conflict = q.returncode != 0 or "<<<<<<<" in "".join(open(os.path.join(wt, f)).read() for f in subprocess.run(["git", "diff", "--name-only"], cwd=wt, capture_output=True, text=True).stdout.split() if os.path.exists(os.path.join(wt, f)))
        if conflict:
            raise RuntimeError("patch does not apply, also not three-way: " + (p.stderr + q.stderr)[-400:])
        shutil.copytree(wt, dst, ignore=shutil.ignore_patterns(".git", "__pycache__", "docs", "examples"))
    finally:
        subprocess.run(["git", "-C", "/repo", "worktree", "remove", "--force", wt], capture_output=True)
        subprocess.run(["git", "-C", "/repo", "worktree", "prune"], capture_output=True)
    if not os.path.isdir(dst):
        shutil.rmtree(d, ignore_errors=True)
        raise RuntimeError("patch does not apply")
    return d, dst


def env_for(src):
    return dict(os.environ, PYTHONPATH=os.path.join(src, "src"), TQDM_DISABLE="1", PYTHONDONTWRITEBYTECODE="1", OMP_NUM_THREADS="1", OPENBLAS_NUM_THREADS="1")


def tally(out):
    lines = [l for l in out.strip().splitlines() if " passed" in l or " failed" in l or " error" in l]
    return lines[-1].strip() if lines else out.strip().splitlines()[-1] if out.strip() else ""


def verify(patch, demo):
    d, dst = scratch_with_patch(patch)
    try:
        res = {}
        p = subprocess.run([PY, "-m", "pytest", "-q", "-p", "no:cacheprovider", "--timeout=900", "tests", "--deselect", "tests/test_sample_simple_cur.py"], cwd=dst, env=env_for(dst), capture_output=True, text=True)
        res["suite_with_patch"] = {"rc": p.returncode, "tally": tally(p.stdout)}
        p = subprocess.run([PY, "-m", "pytest", "-q", "-p", "no:cacheprovider", "--doctest-modules", "--pyargs", "skmatter"], cwd=dst, env=env_for(dst), capture_output=True, text=True)
        res["doctests_with_patch"] = {"rc": p.returncode, "tally": tally(p.stdout)}
        p = subprocess.run([PY, os.path.abspath(demo)], cwd=d, env=env_for(dst), capture_output=True, text=True, timeout=1800)
        res["demo_with_patch"] = {"rc": p.returncode, "tail": (p.stdout + p.stderr).strip()[-400:]}
        p = subprocess.run([PY, os.path.abspath(demo)], cwd=d, env=env_for("/repo"), capture_output=True, text=True, timeout=1800)
        res["demo_without_patch"] = {"rc": p.returncode, "tail": (p.stdout + p.stderr).strip()[-200:]}
        res["confirmed"] = bool(res["suite_with_patch"]["rc"] == 0 and res["doctests_with_patch"]["rc"] == 0 and res["demo_with_patch"]["rc"] != 0 and res["demo_without_patch"]["rc"] == 0)
        return res
    finally:
        shutil.rmtree(d, ignore_errors=True)


def run_checks(patch, props, tier, nproc=8):
    d, dst = scratch_with_patch(patch)
    out = {}
    try:
        for pid in props:
            env = dict(os.environ, VERIF_REPO=dst, VERIF_OUT=d, VERIF_NPROC=str(nproc))
            env.pop("PYTHONPATH", None)
            p = subprocess.run([os.path.join(VERIF, "check"), pid, tier], cwd=VERIF, env=env, capture_output=True, text=True)
            lines = [l.strip() for l in (p.stdout + p.stderr).splitlines() if l.startswith(("VIOLATION", "    ", "INCONCLUSIVE"))]
            first = next((l for l in lines if not l.startswith("VIOLATION")), lines[0] if lines else "")
            out[pid] = {"rc": p.returncode, "verdict": {0: "missed", 1: "caught", 2: "inconclusive"}.get(p.returncode, "n/a"), "first": first[:300]}
    finally:
        shutil.rmtree(d, ignore_errors=True)
    return out


def cmd_import(a):
    src = a.src_dir
    name = a.name or f"{a.id}-{a.which}"
    dst = os.path.join(SEEDED, name)
    os.makedirs(dst, exist_ok=True)
    for f in ("patch.diff", "demo.py", "NOTES.md"):
        if os.path.exists(os.path.join(src, f)):
            shutil.copy(os.path.join(src, f), os.path.join(dst, f))
    res = verify(os.path.join(dst, "patch.diff"), os.path.join(dst, "demo.py"))
    meta = {"name": name, "property": a.id, "origin": "independent sub-agent given only the property text and a scratch worktree", "verification": res, "checks": {}}
    json.dump(meta, open(os.path.join(dst, "meta.json"), "w"), indent=1)
    print(name, "confirmed" if res["confirmed"] else "NOT CONFIRMED", json.dumps(res)[:600])


def cmd_run(a):
    metas = sorted(glob.glob(os.path.join(SEEDED, "*", "meta.json")))
    for mf in metas:
        meta = json.load(open(mf))
        if a.names and meta["name"] not in a.names and meta["property"] not in a.names:
            continue
        if not meta["verification"].get("confirmed"):
            continue
        props = [meta["property"]] + [p for p in a.also if p != meta["property"]]
        try:
            r = run_checks(os.path.join(os.path.dirname(mf), "patch.diff"), props, a.tier)
        except RuntimeError as e:  # the repository moved on (a later fix touches the same lines): re-base the patch by hand
            print(f"{meta['name']:10s} PATCH-DOES-NOT-APPLY {str(e)[:120]}")
            continue
        meta.setdefault("checks", {})[a.tier] = r
        meta["what_was_run"] = f"tools/seeded.py run --tier {a.tier}: patch applied to a scratch copy of /repo (VERIF_REPO), ./check <property> {a.tier}"
        json.dump(meta, open(mf, "w"), indent=1)
        print(f"{meta['name']:10s} " + " ".join(f"{k}:{v['verdict']}" for k, v in r.items()) + "   " + r[meta["property"]]["first"][:150])


def cmd_matrix(a):
    for mf in sorted(glob.glob(os.path.join(SEEDED, "*", "meta.json"))):
        m = json.load(open(mf))
        ck = {t: {k: v["verdict"] for k, v in r.items()} for t, r in m.get("checks", {}).items()}
        print(f"{m['name']:10s} confirmed={m['verification'].get('confirmed')} {ck}  {m.get('needs', '')[:90]}")


def main():
    ap = argparse.ArgumentParser()
    sub = ap.add_subparsers(dest="cmd", required=True)
    i = sub.add_parser("import")
    i.add_argument("id")
    i.add_argument("which")
    i.add_argument("src_dir")
    i.add_argument("--name")
    r = sub.add_parser("run")
    r.add_argument("--tier", default="quick")
    r.add_argument("--also", nargs="*", default=[])
    r.add_argument("names", nargs="*")
    sub.add_parser("matrix")
    a = ap.parse_args()
    {"import": cmd_import, "run": cmd_run, "matrix": cmd_matrix}[a.cmd](a)


if __name__ == "__main__":
    main()
