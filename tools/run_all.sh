#!/bin/bash
# tools/run_all.sh <tier> [ids...] : run checks sequentially, one summary line each (evidence is rewritten)
tier=${1:-quick}; shift
ids=${@:-C01 C02 C03 C04 C05 C06 C07 C08 C09 C10 C11 C12 C13 C14 C15 C16 C17 C18 C19 C20}
fail=0
for id in $ids; do
  out=$(./check $id $tier 2>&1); rc=$?
  echo "rc=$rc $(echo "$out" | head -1 | cut -c1-170)"
  if [ $rc -ne 0 ]; then fail=1; echo "$out" | grep -v "^KNOWN" | head -12; fi
done
exit $fail
