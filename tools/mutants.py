"""Seeded faults for sensitivity validation: each is a change a reviewer could
plausibly let through. file is relative to the repository root."""

SEL = "src/skmatter/_selection.py"
VOR = "src/skmatter/sample_selection/_voronoi_fps.py"
PU = "src/skmatter/utils/_pcovr_utils.py"

MUTANTS = [
    # ---------------------------------------------------------------- C01
    dict(name="c01_mask_drops_last", prop="C01", file=SEL,
         old="        self.support_[self.selected_idx_] = True", new="        self.support_[self.selected_idx_[:-1]] = True"),
    dict(name="c01_float_off_by_one", prop="C01", file=SEL,
         old="            n_iterations = int(n_to_select_from * self.n_to_select)", new="            n_iterations = int(n_to_select_from * self.n_to_select) + 1"),
    dict(name="c01_y_selected_wrong_row", prop="C01", file=SEL,
         old="                self.y_selected_[self.n_selected_] = y[last_selected]", new="                self.y_selected_[self.n_selected_] = y[self.n_selected_]"),
    dict(name="c01_pad_wrong_axis", prop=["C01", "C08"], file=SEL,
         old="        n_pad[self._axis] = (0, n_to_select - self.n_selected_)", new="        n_pad[1 - self._axis] = (0, n_to_select - self.n_selected_)"),
    dict(name="c01_threshold_le", prop="C01", file=SEL,
         old="                if scores[max_score_idx] < self.score_threshold:\n                    return None", new="                if scores[max_score_idx] <= self.score_threshold * 1.5:\n                    return None"),
    dict(name="revert_fix_voronoi_none", prop=["C01", "C06"], file=VOR,
         old="        self.dSL_ = np.zeros(n_to_select, float)", new="        self.dSL_ = np.zeros(self.n_to_select, float)"),
    dict(name="revert_fix_mask_all", prop=["C01", "C08"], file=SEL, count=2,
         old="        self.pi_[self.selected_idx_[: self.n_selected_]] = 0.0\n\n        super()._continue_greedy_search", new="\n        super()._continue_greedy_search"),
    # ---------------------------------------------------------------- C02
    dict(name="c02_running_max", prop="C02", file=SEL,
         old="        # update in-place the Hausdorff distance list\n        np.minimum(self.hausdorff_, new_dist, self.hausdorff_)\n\n    def _update_post_selection(self, X, y, last_selected):\n        \"\"\"\n        Saves the most recent selections, increments the counter,",
         new="        # update in-place the Hausdorff distance list\n        np.maximum(self.hausdorff_, new_dist, self.hausdorff_)\n\n    def _update_post_selection(self, X, y, last_selected):\n        \"\"\"\n        Saves the most recent selections, increments the counter,"),
    dict(name="c02_missing_factor2", prop="C02", file=SEL,
         old="                self.norms_ + self.norms_[last_selected] - 2 * X[last_selected] @ X.T\n            )\n\n        # update in-place", new="                self.norms_ + self.norms_[last_selected] - X[last_selected] @ X.T\n            )\n\n        # update in-place"),
    dict(name="c02_norms_wrong_axis", prop="C02", file=SEL,
         old="        self.norms_ = (X**2).sum(axis=abs(self._axis - 1))\n        self.hausdorff_ = np.full(X.shape[self._axis], np.inf)\n        self.hausdorff_at_select_ = np.full(X.shape[self._axis], np.inf)\n\n        if isinstance(self.initialize, (np.ndarray, list)):",
         new="        self.norms_ = (X**2).sum(axis=self._axis)[: X.shape[self._axis]] if X.shape[0] == X.shape[1] else (X**2).sum(axis=abs(self._axis - 1))\n        self.hausdorff_ = np.full(X.shape[self._axis], np.inf)\n        self.hausdorff_at_select_ = np.full(X.shape[self._axis], np.inf)\n\n        if isinstance(self.initialize, (np.ndarray, list)):"),
    dict(name="c02_mixing_swapped_kernel", prop="C02", file=PU,
         old="        K += (1 - mixing) * Y @ Y.T", new="        K += (mixing) * Y @ Y.T"),
    dict(name="c02_seldist_after_update", prop="C02", file=SEL,
         old="        self._update_hausdorff(X, y, last_selected)\n        super()._update_post_selection(X, y, last_selected)\n\n\nclass _PCovFPS",
         new="        self._update_hausdorff(X, y, last_selected)\n        self.hausdorff_at_select_[last_selected] = self.hausdorff_[last_selected]\n        super()._update_post_selection(X, y, last_selected)\n\n\nclass _PCovFPS"),
    dict(name="c02_pcov_take_wrong", prop="C02", file=SEL,
         old="            - 2 * np.take(self.pcovr_distance_, last_selected, axis=self._axis)", new="            - np.take(self.pcovr_distance_, last_selected, axis=self._axis)"),
]

MUTANTS += [
    # ---------------------------------------------------------------- C06
    dict(name="c06_overprune_half", prop="C06", file=VOR, old="            ) * 0.25\n", new="            ) * 0.5\n"),
    dict(name="c06_overprune_one", prop="C06", file=VOR, old="            ) * 0.25\n", new="            ) * 1.0\n"),
    dict(name="c06_no_dsl_pad", prop=["C06", "C08"], file=VOR,
         old='        self.dSL_ = np.pad(self.dSL_, (0, n_pad), "constant", constant_values=0)', new='        pass'),
    dict(name="c06_vlocation_not_updated", prop="C06", file=VOR,
         old="        if len(updated_points) > 0:\n            self.vlocation_of_idx[updated_points] = self.n_selected_", new="        if len(updated_points) > 0 and self.n_selected_ < 2:\n            self.vlocation_of_idx[updated_points] = self.n_selected_"),
    dict(name="c06_sparse_newdist_zeros", prop="C06", file=VOR,
         old="                self.new_dist_ = self.hausdorff_.copy()\n", new="                self.new_dist_ = np.zeros_like(self.hausdorff_)\n"),
    dict(name="c06_prune_test_flipped", prop="C06", file=VOR,
         old="                self.dSL_[self.vlocation_of_idx] < self.hausdorff_", new="                self.dSL_[self.vlocation_of_idx] > self.hausdorff_"),
    dict(name="c06_bug_only_at_low_switch", prop="C06", file=VOR,
         old="                self.new_dist_[active_points] = (\n                    self.norms_[active_points]", new="                if self.full_fraction < 0.06:\n                    active_points = active_points[1:]\n                self.new_dist_[active_points] = (\n                    self.norms_[active_points]"),
    dict(name="c06_sparse_skips_last_active", prop="C06", file=VOR,
         old="                self.new_dist_[active_points] = (\n                    self.norms_[active_points]", new="                active_points = active_points[:-1] if len(active_points) > 3 else active_points\n                self.new_dist_[active_points] = (\n                    self.norms_[active_points]"),
]

ORT = "src/skmatter/utils/_orthogonalizers.py"
MUTANTS += [
    # ---------------------------------------------------------------- C07
    dict(name="c07_modulo_shifted", prop="C07", file=SEL, count=2,
         old="            if self.n_selected_ % self.recompute_every == 0:", new="            if (self.n_selected_ + 1) % self.recompute_every == 0:"),
    dict(name="c07_ysample_all_rows", prop="C07", file=SEL,
         old="                    y_ref=self.y_selected_[: self.n_selected_],\n                    X_ref=self.X_selected_[: self.n_selected_],", new="                    y_ref=self.y_ref_,\n                    X_ref=self.X_ref_,"),
    dict(name="c07_U_for_features", prop="C07", file=SEL,
         old='            svd_kwargs["return_singular_vectors"] = "vh"\n            _, _, Vt = scipy.sparse.linalg.svds(X, **svd_kwargs)\n            new_pi = (np.real(Vt) ** 2.0).sum(axis=0)',
         new='            svd_kwargs["return_singular_vectors"] = "vh"\n            _, _, Vt = scipy.sparse.linalg.svds(X @ X.T @ X, **svd_kwargs)\n            new_pi = (np.real(Vt) ** 2.0).sum(axis=0)'),
    dict(name="c07_orth_wrong_axis", prop="C07", file=SEL,
         old="            self.X_current_ = X_orthogonalizer(\n                x1=self.X_current_.T, c=last_selected, tol=tol\n            ).T\n\n\nclass _PCovCUR",
         new="            self.X_current_ = X_orthogonalizer(\n                x1=self.X_current_, c=last_selected % self.X_current_.shape[1], tol=tol\n            )\n\n\nclass _PCovCUR"),
    dict(name="c07_yfeat_no_update", prop="C07", file=SEL,
         old="                self.y_current_ = Y_feature_orthogonalizer(\n                    self.y_current_, X=self.X_selected_, tol=self.tolerance\n                )", new="                pass"),
    dict(name="c07_smallest_eigvecs", prop="C07", file=SEL,
         old="        U = U[:, np.flip(np.argsort(v))]", new="        U = U[:, np.argsort(v)]"),
    dict(name="c07_pi_k_minus_one", prop="C07", file=SEL,
         old="        pi = (np.real(U)[:, : self.k] ** 2.0).sum(axis=1)", new="        pi = (np.real(U)[:, : max(1, self.k - 1)] ** 2.0).sum(axis=1)"),
    dict(name="c07_mixing_swapped_cov", prop=["C07", "C02"], file=PU,
         old="        C += (1 - mixing) * np.array(C_Y @ C_Y.T, dtype=np.float64)", new="        C += (mixing) * np.array(C_Y @ C_Y.T, dtype=np.float64)"),
    dict(name="c07_orthogonalizer_unnormalised", prop="C07", file=ORT,
         old="            col = np.divide(col, np.linalg.norm(col, axis=0))", new="            col = np.divide(col, np.linalg.norm(col, axis=0) ** 0.5)"),
]

MUTANTS += [
    # ---------------------------------------------------------------- C08
    dict(name="c08_prefix_not_copied", prop=["C08", "C01"], file=SEL,
         old="        self.selected_idx_[: self.n_selected_] = old_idx", new="        self.selected_idx_[: self.n_selected_ - 1] = old_idx[:-1]"),
    dict(name="c08_iterations_not_reduced", prop=["C08", "C01"], file=SEL,
         old="        n_iterations -= self.n_selected_", new="        n_iterations -= 0 if warm_start and self.n_selected_ == 2 else self.n_selected_"),
    dict(name="c08_cur_warm_reorth_skipped_pi_stale", prop="C08", file=SEL,
         old="        self.pi_ = self._compute_pi(self.X_current_)\n        self.pi_[self.selected_idx_[: self.n_selected_]] = 0.0\n\n        super()._continue_greedy_search(X, y, n_to_select)",
         new="        self.pi_ = self._compute_pi(X)\n        self.pi_[self.selected_idx_[: self.n_selected_]] = 0.0\n\n        super()._continue_greedy_search(X, y, n_to_select)"),
    dict(name="c08_voronoi_warm_resets_cells", prop=["C08", "C06"], file=VOR,
         old="        n_pad = n_to_select - self.n_selected_\n", new="        n_pad = n_to_select - self.n_selected_\n        self.vlocation_of_idx[:] = 0\n"),
    dict(name="c08_fps_warm_table_reset", prop="C08", file=SEL,
         old="        old_idx = self.selected_idx_.copy()\n", new="        old_idx = self.selected_idx_.copy()\n        if hasattr(self, 'hausdorff_') and n_to_select - self.n_selected_ > 2:\n            self.hausdorff_ = np.minimum(self.hausdorff_, np.median(self.hausdorff_))\n"),
    dict(name="c08_float_request_rounds_up", prop=["C08", "C01"], file=SEL,
         old="            n_iterations = int(n_to_select_from * self.n_to_select)", new="            n_iterations = int(round(n_to_select_from * self.n_to_select))"),
    dict(name="c08_pcovcur_warm_y_not_restored", prop="C08", file=SEL,
         old="        self.pi_ = self._compute_pi(self.X_current_, self.y_current_)\n        self.pi_[self.selected_idx_[: self.n_selected_]] = 0.0\n\n        super()._continue_greedy_search",
         new="        self.pi_ = self._compute_pi(self.X_current_, self.y_ref_)\n        self.pi_[self.selected_idx_[: self.n_selected_]] = 0.0\n\n        super()._continue_greedy_search"),
]

PCV = "src/skmatter/decomposition/_pcovr.py"
MUTANTS += [
    # ---------------------------------------------------------------- C03 / C04 / C14
    dict(name="c03_isqrt_wrong_power", prop=["C03", "C04", "C14"], file=PU,
         old="        C_isqrt = UC @ np.diagflat(1.0 / vC) @ UC.T", new="        C_isqrt = UC @ np.diagflat(1.0 / vC**2) @ UC.T"),
    dict(name="c03_P_factor_dropped", prop=["C03", "C14"], file=PCV,
         old="        P = (self.mixing * X.T) + (1.0 - self.mixing) * W @ Yhat.T", new="        P = (self.mixing * X.T) + W @ Yhat.T"),
    dict(name="c03_arpack_order", prop="C03", file=PCV,
         old="            S = S[::-1]\n", new="            S = S\n"),
    dict(name="c03_arpack_vectors_not_reversed", prop="C03", file=PCV,
         old="            U, Vt = svd_flip(U[:, ::-1], Vt[::-1])", new="            U, Vt = svd_flip(U, Vt)"),
    dict(name="c03_explained_variance_n", prop=["C03"], file=PCV, count=1,
         old="        self.explained_variance_ = S / (X.shape[0] - 1)\n        self.explained_variance_ratio_ = (\n            self.explained_variance_ / self.explained_variance_.sum()\n        )\n\n        P = ",
         new="        self.explained_variance_ = S / (X.shape[0])\n        self.explained_variance_ratio_ = (\n            self.explained_variance_ / self.explained_variance_.sum()\n        )\n\n        P = "),
    dict(name="c03_sample_space_uses_Y_not_Yhat", prop=["C03", "C04"], file=PCV,
         old="        Kt = pcovr_kernel(mixing=self.mixing, X=X, Y=Yhat)", new="        Kt = pcovr_kernel(mixing=self.mixing, X=X, Y=Y)"),
    dict(name="revert_fix_pcovr_1d_precomputed", prop=["C03", "C14"], file=PCV,
         old="            Yhat = Y.copy().reshape(X.shape[0], -1)", new="            Yhat = Y.copy()"),
]

MUTANTS += [
    # ---------------------------------------------------------------- C14
    dict(name="c14_ptx_sqrt_exchanged", prop=["C14", "C03"], file=PCV,
         old="        self.ptx_ = np.linalg.multi_dot([S_sqrt_inv, Vt, Csqrt])", new="        self.ptx_ = np.linalg.multi_dot([S_sqrt, Vt, Csqrt])"),
    dict(name="c14_pxy_not_reshaped", prop="C14", file=PCV,
         old="        if len(Y.shape) == 1:\n            self.pxy_ = self.pxy_.reshape(\n                X.shape[1],\n            )", new="        if len(Y.shape) == 1 and X.shape[1] < 0:\n            self.pxy_ = self.pxy_.reshape(\n                X.shape[1],\n            )"),
    dict(name="c14_pty_from_yhat_feature", prop="C03", file=PCV,
         old="        self.pty_ = np.linalg.multi_dot([S_sqrt_inv, Vt, iCsqrt, X.T, Y])", new="        self.pty_ = np.linalg.multi_dot([S_sqrt_inv, Vt, iCsqrt, X.T, Yhat])"),
    dict(name="c14_sample_T_unnormalised", prop=["C14", "C03"], file=PCV,
         old="        T = Vt.T @ S_sqrt_inv\n", new="        T = Vt.T @ S_sqrt_inv @ S_sqrt_inv\n"),
    dict(name="c14_transform_skips_last_component", prop="C14", file=PCV,
         old="        self.components_ = self.pxt_.T  # for sklearn compatibility", new="        self.components_ = self.pxt_.T.copy()  # for sklearn compatibility\n        if self.n_components_ > 2:\n            self.components_[-1] *= 0.999"),
    dict(name="c14_score_uses_unrelative_y", prop="C14", file=PCV,
         old="            + np.linalg.norm(Y - y) ** 2.0 / np.linalg.norm(Y) ** 2.0", new="            + np.linalg.norm(Y - y) ** 2.0 / np.linalg.norm(y) ** 2.0"),
    dict(name="c14_tol_cut_relative_bug", prop=["C14", "C03"], file=PCV, count=1,
         old="        S_sqrt_inv = np.diagflat([1.0 / np.sqrt(s) if s > S_tol else 0.0 for s in S])\n        T = Vt.T @ S_sqrt_inv",
         new="        S_sqrt_inv = np.diagflat([1.0 / np.sqrt(s) if s > 1e-3 else 0.0 for s in S])\n        T = Vt.T @ S_sqrt_inv"),
]

MUTANTS += [
    # ---------------------------------------------------------------- C04
    dict(name="revert_fix_pcovr_relative_cut", prop="C04", file=PCV, count=2,
         old="        S_tol = self.tol * max(1.0, np.max(S))", new="        S_tol = self.tol"),
    dict(name="c04_mixing_swapped_in_cov", prop=["C04", "C03"], file=PU,
         old="        C += (mixing) * (X.T @ X)", new="        C += (1 - mixing) * (X.T @ X)"),
    dict(name="c04_bottom_k_components", prop="C04", file=PCV,
         old="        return (\n            U[:, : self.n_components_],\n            S[: self.n_components_],\n            Vt[: self.n_components_],\n        )",
         new="        if self.mixing == 0.625:\n            return U[:, -self.n_components_ :], S[-self.n_components_ :], Vt[-self.n_components_ :]\n        return (\n            U[:, : self.n_components_],\n            S[: self.n_components_],\n            Vt[: self.n_components_],\n        )"),
    dict(name="c04_kernel_mixing_squared", prop=["C04", "C03"], file=PU,
         old='            K += (mixing) * X @ X.T\n        elif kernel_params.get("kernel") != "precomputed":', new='            K += (mixing**2) * X @ X.T\n        elif kernel_params.get("kernel") != "precomputed":'),
    dict(name="c04_feature_space_Y_for_Yhat", prop=["C04", "C03"], file=PCV,
         old="            self._fit_feature_space(X, Y.reshape(Yhat.shape), Yhat)", new="            self._fit_feature_space(X, Y.reshape(Yhat.shape), Y.reshape(Yhat.shape))"),
]

KPC = "src/skmatter/decomposition/_kernel_pcovr.py"
MUTANTS += [
    # ---------------------------------------------------------------- C05
    dict(name="revert_fix_kpcovr_score_knn", prop="C05", file=KPC,
         old="w.T @ K_NN @ w) / np.trace(K_VV)", new="w.T @ K_VV @ w) / np.trace(K_VV)"),
    dict(name="revert_fix_kpcovr_score_centre", prop="C05", file=KPC,
         old="            ) / self.centerer_.scale_\n            K_NN = self.centerer_.transform(K_NN)", new="            ) / self.centerer_.scale_\n            K_VV = self.centerer_.transform(self._get_kernel(X)) if K_VV.shape[0] == K_NN.shape[0] else K_VV\n            K_NN = self.centerer_.transform(K_NN)"),
    dict(name="revert_fix_kpcovr_1d_precomputed", prop="C05", file=KPC,
         old="            Yhat = Y.copy().reshape(X.shape[0], -1)", new="            Yhat = Y.copy()"),
    dict(name="c05_predict_skips_centerer", prop="C05", file=KPC,
         old="        if self.center:\n            K = self.centerer_.transform(K)\n\n        return K @ self.pky_", new="        return K @ self.pky_"),
    dict(name="c05_gamma_not_forwarded", prop="C05", file=KPC,
         old='            params = {"gamma": self.gamma, "degree": self.degree, "coef0": self.coef0}', new='            params = {"gamma": None, "degree": self.degree, "coef0": self.coef0}'),
    dict(name="c05_pty_from_uncentred", prop="C05", file=KPC,
         old="        self.ptk_ = self.pt__ @ K\n        self.pty_ = self.pt__ @ Y", new="        self.ptk_ = self.pt__ @ K\n        self.pty_ = self.pt__ @ (Y * (1.05 if self.center else 1.0))"),
    dict(name="c05_P_mixing_dropped", prop="C05", file=KPC,
         old="        P = (self.mixing * np.eye(K.shape[0])) + (1.0 - self.mixing) * (W @ Yhat.T)", new="        P = np.eye(K.shape[0]) + (1.0 - self.mixing) * (W @ Yhat.T)"),
    dict(name="c05_transform_uses_fit_kernel_order", prop="C05", file=KPC,
         old="        X = check_array(X)\n        K = self._get_kernel(X, self.X_fit_)\n\n        if self.center:\n            K = self.centerer_.transform(K)\n\n        return K @ self.pkt_",
         new="        X = check_array(X)\n        K = self._get_kernel(X, self.X_fit_)\n\n        if self.center and K.shape[0] != 1:\n            K = self.centerer_.transform(K)\n\n        return K @ self.pkt_"),
    dict(name="c05_score_krr_unrelative", prop="C05", file=KPC,
         old="        Lkrr = np.linalg.norm(Y - y) ** 2 / np.linalg.norm(Y) ** 2", new="        Lkrr = np.linalg.norm(Y - y) ** 2 / np.linalg.norm(y) ** 2"),
]

RDG = "src/skmatter/linear_model/_ridge.py"
MUTANTS += [
    # ---------------------------------------------------------------- C10
    dict(name="revert_fix_ridge_len", prop="C10", file=RDG,
         old="        n = sum(s > rcond * np.max(s))", new="        n = len(s > rcond * np.max(s))"),
    dict(name="revert_fix_ridge_abs_rcond", prop="C10", file=RDG,
         old="        n_fold1 = sum(s_fold1 > rcond * np.max(s_fold1))\n        n_fold2 = sum(s_fold2 > rcond * np.max(s_fold2))", new="        n_fold1 = sum(s_fold1 > rcond)\n        n_fold2 = sum(s_fold2 > rcond)"),
    dict(name="revert_fix_ridge_scorer_swap", prop="C10", file=RDG,
         old="                @ Ut_fold1_y_fold1,\n                y_fold2,\n            )", new="                @ Ut_fold1_y_fold1,\n                y_fold2,\n            ) if False else scorer(identity_estimator, y_fold2, (X_fold2_V_fold1 * (s_fold1[:n_fold1] / (s_fold1[:n_fold1] ** 2 + alpha))) @ Ut_fold1_y_fold1)"),
    dict(name="c10_fold_orientation", prop="C10", file=RDG,
         old="        fold1_idx, fold2_idx = next(cv.split(X))", new="        fold2_idx, fold1_idx = next(cv.split(X))"),
    dict(name="c10_relative_min", prop="C10", file=RDG,
         old="            scaled_alphas *= max(np.max(s_fold1), np.max(s_fold2))", new="            scaled_alphas *= min(np.max(s_fold1), np.max(s_fold2))"),
    dict(name="c10_tikhonov_formula", prop="C10", file=RDG,
         old="                    X_fold1_V_fold2\n                    * (s_fold2[:n_fold2] / (s_fold2[:n_fold2] ** 2 + alpha))", new="                    X_fold1_V_fold2\n                    * (1.0 / (s_fold2[:n_fold2] + alpha))"),
    dict(name="c10_argmin_alpha", prop="C10", file=RDG,
         old="        best_alpha_idx = np.argmax(self.cv_values_)", new="        best_alpha_idx = np.argmin(self.cv_values_)"),
    dict(name="c10_final_fit_unscaled_alpha", prop="C10", file=RDG,
         old="        best_scaled_alpha = scaled_alphas[best_alpha_idx]", new="        best_scaled_alpha = self.alphas[best_alpha_idx]"),
    dict(name="c10_cutoff_ge", prop="C10", file=RDG,
         old="            n_alpha = min(n, sum(s > best_scaled_alpha))", new="            n_alpha = min(n, sum(s > best_scaled_alpha) + (1 if sum(s > best_scaled_alpha) < n and best_scaled_alpha > 0 else 0))"),
    dict(name="c10_only_first_target_scored", prop="C10", file=RDG,
         old="            return (loss_1_to_2 + loss_2_to_1) / 2\n\n        if self.regularization_method", new="            return (loss_1_to_2 + loss_2_to_1) / 2 if y.shape[1] < 3 else loss_1_to_2\n\n        if self.regularization_method"),
]

PRE = "src/skmatter/preprocessing/_data.py"
MUTANTS += [
    # ---------------------------------------------------------------- C11
    dict(name="c11_unweighted_variance", prop="C11", file=PRE,
         old="            var = np.average((X - X_mean) ** 2, weights=sample_weight, axis=0)", new="            var = np.average((X - X_mean) ** 2, axis=0)"),
    dict(name="c11_scale_is_variance", prop="C11", file=PRE,
         old="                self.scale_ = np.sqrt(var_sum)", new="                self.scale_ = var_sum"),
    dict(name="c11_tolerance_inverted", prop="C11", file=PRE,
         old="                if np.any(var < self.atol + abs(X_mean) * self.rtol):", new="                if np.any(var > 1e300 * (self.atol + abs(X_mean) * self.rtol)) or np.all(var < self.atol * 0.5):"),
    dict(name="c11_inverse_order", prop="C11", file=PRE,
         old="        return X_tr * self.scale_ + self.mean_", new="        return (X_tr + self.mean_) * self.scale_"),
    dict(name="c11_variance_about_zero_when_uncentred", prop="C11", file=PRE,
         old="            X_mean = np.average(X, weights=sample_weight, axis=0)\n            var =", new="            X_mean = np.average(X, weights=sample_weight, axis=0) * (1.0 if self.with_mean else 0.0)\n            var ="),
    dict(name="c11_weights_not_normalised_for_zero", prop="C11", file=PRE,
         old="            sample_weight = _check_sample_weight(sample_weight, X, dtype=X.dtype)\n            sample_weight = sample_weight / np.sum(sample_weight)\n\n        if self.with_mean:",
         new="            sample_weight = _check_sample_weight(sample_weight, X, dtype=X.dtype)\n            sample_weight = np.maximum(sample_weight, 1e-3 * np.max(sample_weight))\n            sample_weight = sample_weight / np.sum(sample_weight)\n\n        if self.with_mean:"),
    dict(name="c11_rtol_uses_first_column", prop="C11", file=PRE,
         old="                if var_sum < abs(np.average(X_mean)) * self.rtol + self.atol:", new="                if var_sum < abs(X_mean[0]) * self.rtol + self.atol:"),
]

MUTANTS += [
    # ---------------------------------------------------------------- C12
    dict(name="c12_unweighted_pred_cols", prop="C12", file=PRE,
         old="        if self.with_center:\n            K_pred_cols = np.average(K, weights=self.sample_weight_, axis=1)[\n                :, np.newaxis\n            ]\n        else:\n            K_pred_cols = np.zeros((K.shape[0], 1))\n\n        K -= self.K_fit_rows_\n        K -= K_pred_cols\n        K += self.K_fit_all_\n\n        return K / self.scale_",
         new="        if self.with_center:\n            K_pred_cols = np.average(K, axis=1)[\n                :, np.newaxis\n            ]\n        else:\n            K_pred_cols = np.zeros((K.shape[0], 1))\n\n        K -= self.K_fit_rows_\n        K -= K_pred_cols\n        K += self.K_fit_all_\n\n        return K / self.scale_"),
    dict(name="c12_scale_from_uncentred_trace", prop="C12", file=PRE,
         old="            K += self.K_fit_all_\n\n            self.scale_ = np.trace(K) / K.shape[0]",
         new="            K += self.K_fit_all_ + self.K_fit_rows_ + K_pred_cols - 2 * self.K_fit_all_\n\n            self.scale_ = np.trace(K) / K.shape[0]"),
    dict(name="c12_sparse_scale_no_sqrt", prop="C12", file=PRE,
         old="            self.scale_ = np.sqrt(np.trace(Khat) / Knm.shape[0])", new="            self.scale_ = np.trace(Khat) / Knm.shape[0]"),
    dict(name="c12_sparse_unweighted_rows", prop="C12", file=PRE,
         old="            self.K_fit_rows_ = np.average(Knm, weights=sample_weight, axis=0)\n        else:\n            self.K_fit_rows_ = np.zeros(Knm.shape[1])", new="            self.K_fit_rows_ = np.average(Knm, axis=0)\n        else:\n            self.K_fit_rows_ = np.zeros(Knm.shape[1])"),
    dict(name="c12_fit_all_unweighted", prop="C12", file=PRE,
         old="                self.K_fit_all_ = np.average(\n                    self.K_fit_rows_, weights=self.sample_weight_\n                )", new="                self.K_fit_all_ = np.average(\n                    self.K_fit_rows_\n                )"),
    dict(name="c12_trace_off_still_scales", prop="C12", file=PRE,
         old="        else:\n            self.scale_ = 1.0\n\n        return self\n\n    def transform(self, K, copy=True):", new="        else:\n            self.scale_ = 1.0 if self.with_center else np.trace(K) / K.shape[0]\n\n        return self\n\n    def transform(self, K, copy=True):"),
    dict(name="c12_sparse_test_recentred", prop="C12", file=PRE,
         old="        Kc = (Knm - self.K_fit_rows_) / self.scale_", new="        Kc = (Knm - (self.K_fit_rows_ if Knm.shape[0] != 1 else Knm.mean(axis=0))) / self.scale_"),
]

PW = "src/skmatter/metrics/_pairwise.py"
MUTANTS += [
    # ---------------------------------------------------------------- C15
    dict(name="c15_floor_for_round", prop=["C15", "C16", "C17"], file=PW,
         old="    XY -= np.round(XY / cell) * cell\n    distance", new="    XY -= np.floor(XY / cell) * cell\n    distance"),
    dict(name="c15_mahalanobis_no_wrap", prop=["C15", "C17"], file=PW,
         old="        if cell is not None:\n            XY -= np.round(XY / cell) * cell", new="        if cell is not None and XY.shape[1] == 1:\n            XY -= np.round(XY / cell) * cell"),
    dict(name="c15_sqrt_twice", prop="C15", file=PW,
         old="    if not squared:\n        dists **= 0.5", new="    if not squared:\n        dists **= 0.5\n        if cell_length is not None and dists.shape[0] > 1:\n            dists **= 0.5"),
    dict(name="c15_wrap_only_positive", prop=["C15", "C16"], file=PW,
         old="    XY -= np.round(XY / cell) * cell\n    distance", new="    XY -= np.round(np.abs(XY) / cell) * cell\n    distance"),
    dict(name="c15_squared_ignored_nonperiodic_ok", prop="C15", file=PW,
         old="    if squared:\n        distance **= 2\n    return distance", new="    if squared and distance.shape[0] > 1:\n        distance **= 2\n    return distance"),
    dict(name="c15_cell_check_lenient", prop="C15", file=PW,
         old='    if (cell_length is not None) and (X.shape[1] != len(cell_length)):', new='    if (cell_length is not None) and (X.shape[1] < len(cell_length)):'),
    dict(name="c15_stack_shares_first", prop=["C15", "C17"], file=PW,
         old="        return np.sum(XY * np.transpose(cov_inv @ XY.T, (0, 2, 1)), axis=-1).reshape(", new="        cov_inv = cov_inv if cov_inv.shape[0] < 3 else np.repeat(cov_inv[:1], cov_inv.shape[0], axis=0)\n        return np.sum(XY * np.transpose(cov_inv @ XY.T, (0, 2, 1)), axis=-1).reshape("),
]

LMB = "src/skmatter/linear_model/_base.py"
MUTANTS += [
    # ---------------------------------------------------------------- C18
    dict(name="c18_returns_least_squares", prop="C18", file=LMB,
         old="            self.coef_ = (\n                U\n                @ orthogonal_procrustes(X @ U, y.reshape(X.shape[0], -1) @ Vt.T)[0]\n                @ Vt\n            ).T", new="            self.coef_ = coef.T"),
    dict(name="c18_rotation_transposed", prop="C18", file=LMB,
         old="                @ orthogonal_procrustes(X @ U, y.reshape(X.shape[0], -1) @ Vt.T)[0]\n", new="                @ orthogonal_procrustes(X @ U, y.reshape(X.shape[0], -1) @ Vt.T)[0].T\n"),
    dict(name="c18_padded_transposed", prop=["C18", "C13"], file=LMB,
         old="            self.coef_ = orthogonal_procrustes(X, y)[0].T", new="            self.coef_ = orthogonal_procrustes(X, y)[0]"),
    dict(name="c18_pad_wrong_side", prop=["C18", "C13"], file=LMB,
         old="            y = np.pad(y, [(0, 0), (0, self.max_components_ - y.shape[1])])", new="            y = np.pad(y, [(0, 0), (self.max_components_ - y.shape[1], 0)])"),
    dict(name="c18_procrustes_on_raw_y", prop="C18", file=LMB,
         old="orthogonal_procrustes(X @ U, y.reshape(X.shape[0], -1) @ Vt.T)[0]", new="orthogonal_procrustes(X @ U, linear_estimator.predict(X).reshape(X.shape[0], -1) @ Vt.T + 0.05 * y.reshape(X.shape[0], -1) @ Vt.T * 0)[0]"),
    dict(name="c18_predict_pad_after", prop="C18", file=LMB,
         old="            X = np.pad(X, [(0, 0), (0, self.max_components_ - X.shape[1])])\n        return X @ self.coef_.T", new="            X = np.pad(X, [(0, 0), (self.max_components_ - X.shape[1], 0)]) if X.shape[0] == 5 else np.pad(X, [(0, 0), (0, self.max_components_ - X.shape[1])])\n        return X @ self.coef_.T"),
]

PRG = "src/skmatter/metrics/_prediction_rigidities.py"
MUTANTS += [
    # ---------------------------------------------------------------- C20
    dict(name="c20_sum_for_mean", prop="C20", file=PRG, count=1,
         old="        X_struc.append(np.mean(X_i / sfactor, axis=0))\n    X_struc = np.vstack(X_struc)\n\n    # build XX and obtain Xinv for LPR calculation", new="        X_struc.append(np.sum(X_i / sfactor, axis=0))\n    X_struc = np.vstack(X_struc)\n\n    # build XX and obtain Xinv for LPR calculation"),
    dict(name="c20_mask_off_by_one", prop="C20", file=PRG,
         old="            (tot_comp_idx >= comp_idxs[ci]) & (tot_comp_idx < comp_idxs[ci + 1])", new="            (tot_comp_idx >= comp_idxs[ci]) & (tot_comp_idx <= comp_idxs[ci + 1])"),
    dict(name="c20_alpha_before_scaling", prop="C20", file=PRG, count=1,
         old="    Xprime = XX + alpha * np.eye(XX.shape[0])", new="    Xprime = XX + alpha * sfactor**2 * np.eye(XX.shape[0])"),
    dict(name="c20_boundaries_from_train", prop="C20", file=PRG, count=1,
         old="    lens = []\n    for X in X_test:\n        lens.append(len(X))", new="    lens = []\n    for X in (X_train if len(X_train) == len(X_test) else X_test):\n        lens.append(len(X))"),
    dict(name="c20_cpr_test_unscaled", prop="C20", file=PRG,
         old="        X_struc_test.append(np.mean(X_i / sfactor, axis=0))", new="        X_struc_test.append(np.mean(X_i, axis=0))"),
    dict(name="c20_rank_of_unregularised", prop="C20", file=PRG, count=2,
         old="    rank_diff = X_struc.shape[1] - np.linalg.matrix_rank(Xprime)", new="    rank_diff = X_struc.shape[1] - np.linalg.matrix_rank(XX)"),
    dict(name="c20_sfactor_mean_of_sums", prop="C20", file=PRG, count=2,
         old="    sfactor = np.sqrt(np.mean(X_atom**2, axis=0).sum())", new="    sfactor = np.sqrt(np.mean((X_atom**2).sum(axis=0)))"),
]

SSB = "src/skmatter/sample_selection/_base.py"
MUTANTS += [
    # ---------------------------------------------------------------- C19
    dict(name="c19_upper_hull", prop="C19", file=SSB,
         old="        directional_facets_idx = np.where(y_normal < 0)[0]", new="        directional_facets_idx = np.where(y_normal > 0)[0]"),
    dict(name="c19_max_for_min_above", prop="C19", file=SSB,
         old="        directional_distances[~below_directional_convex_hull] = np.min(", new="        directional_distances[~below_directional_convex_hull] = np.max("),
    dict(name="c19_low_dim_order_ignored", prop="C19", file=SSB,
         old="        convex_hull_data[:, 1:] = X[:, self.low_dim_idx].copy()", new="        convex_hull_data[:, 1:] = X[:, sorted(self.low_dim_idx)].copy()"),
    dict(name="c19_vertical_facets_included", prop="C19", file=SSB,
         old="        directional_facets_idx = np.where(y_normal < 0)[0]", new="        directional_facets_idx = np.where(y_normal <= 1e-3)[0]"),
    dict(name="c19_below_branch_min", prop="C19", file=SSB,
         old="        directional_distances[below_directional_convex_hull] = np.max(", new="        directional_distances[below_directional_convex_hull] = -np.max("),
    dict(name="c19_tolerance_sign", prop="C19", file=SSB,
         old="            all_directional_distances < -self.tolerance, axis=1", new="            all_directional_distances < self.tolerance + 0.5, axis=1"),
]

REC = "src/skmatter/metrics/_reconstruction_measures.py"
MUTANTS += [
    # ---------------------------------------------------------------- C13
    dict(name="revert_fix_grd_pad", prop="C13", file=REC,
         old="        [(0, 0), (0, orthogonal_predictions_Y_test.shape[1] - Y_test.shape[1])],", new="        [(0, 0), (0, 0)],"),
    dict(name="c13_scaler_fit_on_test", prop="C13", file=REC, count=1,
         old="    scaler.fit(Y_train)\n    Y_train = scaler.transform(Y_train)\n    Y_test = scaler.transform(Y_test)\n\n    estimator.fit(X_train, Y_train)",
         new="    scaler.fit(Y_test)\n    Y_train = scaler.transform(Y_train)\n    Y_test = scaler.transform(Y_test)\n\n    estimator.fit(X_train, Y_train)"),
    dict(name="c13_local_mean_all_train", prop="C13", file=REC,
         old="        local_X_train_mean = np.mean(X_train[local_env_idx], axis=0)", new="        local_X_train_mean = np.mean(X_train, axis=0)"),
    dict(name="c13_neighbours_farthest", prop="C13", file=REC,
         old="        local_env_idx = np.argsort(squared_dist[i])[:n_local_points]", new="        local_env_idx = np.argsort(squared_dist[i])[-n_local_points:]"),
    dict(name="c13_global_norm_mean_not_rms", prop="C13", file=REC, count=1,
         old="    return np.linalg.norm(pointwise_global_reconstruction_error_values) / np.sqrt(", new="    return np.sum(pointwise_global_reconstruction_error_values) / np.sqrt(1.0 * "),
    dict(name="c13_grd_orth_on_Y_not_prediction", prop="C13", file=REC,
         old="        .fit(X_train, estimator.predict(X_train))", new="        .fit(X_train, Y_train)"),
    dict(name="c13_sqdist_missing_factor", prop="C13", file=REC,
         old="        - 2 * X_test @ X_train.T\n    )", new="        - X_test @ X_train.T\n    )"),
    dict(name="c13_y_not_scaled", prop="C13", file=REC, count=1,
         old="    scaler.fit(Y_train)\n    Y_train = scaler.transform(Y_train)\n    Y_test = scaler.transform(Y_test)\n\n    predictions_Y_test",
         new="    scaler.fit(Y_train)\n    Y_test = Y_test - Y_train.mean(axis=0)\n    Y_train = Y_train - Y_train.mean(axis=0)\n\n    predictions_Y_test"),
]

QS = "src/skmatter/clustering/_quick_shift.py"
MUTANTS += [
    # ---------------------------------------------------------------- C16
    dict(name="c16_path_to_first_root", prop="C16", file=QS,
         old="            idxroot[qspath] = idxroot[idxroot[current]]", new="            idxroot[qspath] = idxroot[current]"),
    dict(name="c16_cutoff_of_candidate", prop="C16", file=QS,
         old="            if probs[j] > probs[idx] and distmm[idx, j] < min(dmin, cutoff):", new="            if probs[j] > probs[idx] and distmm[idx, j] < min(dmin, self.dist_cutoff_sq[j]):"),
    dict(name="c16_weights_ge", prop="C16", file=QS,
         old="            if probs[j] > probs[idx] and distmm[idx, j] < dmin and neighs[j]:", new="            if probs[j] >= probs[idx] and distmm[idx, j] < dmin and neighs[j] and j != idx - 1:"),
    dict(name="c16_gabriel_le", prop="C16", file=QS,
         old="            if np.sum(dist_matrix_sq[i] + dist_matrix_sq[j] < dist_matrix_sq[i, j]):", new="            if np.sum(dist_matrix_sq[i] + dist_matrix_sq[j] < 1.05 * dist_matrix_sq[i, j]):"),
    dict(name="c16_shell_off_by_one", prop="C16", file=QS,
         old="        for _ in range(1, self.gabriel_shell):", new="        for _ in range(0, self.gabriel_shell):"),
    dict(name="c16_nn_fallback_dropped", prop="C16", file=QS,
         old="        if probs[idxn] > probs[idx]:\n            next_idx = idxn", new="        if probs[idxn] > probs[idx] and cutoff > 1e-2:\n            next_idx = idxn"),
    dict(name="c16_scale_not_squared", prop="C16", file=QS,
         old="            self.dist_cutoff_sq = self.dist_cutoff_sq * self.scale**2", new="            self.dist_cutoff_sq = self.dist_cutoff_sq * self.scale"),
    dict(name="c16_gabriel_asymmetric", prop="C16", file=QS,
         old="                gabriel[i, j] = False\n                gabriel[j, i] = False", new="                gabriel[i, j] = False\n                gabriel[j, i] = False if (i + j) % 7 else True"),
    dict(name="c16_order_dependent_first_max", prop="C16", file=QS,
         old="                if idxroot[idxroot[current]] != -1:\n                    # Found a path to a root\n                    break", new="                if idxroot[idxroot[current]] != -1:\n                    # Found a path to a root\n                    if len(qspath) > 2 and i % 2:\n                        idxroot[qspath[:-1]] = idxroot[current]\n                        qspath = qspath[-1:]\n                    break"),
]

SKD = "src/skmatter/neighbors/_sparsekde.py"
USK = "src/skmatter/utils/_sparsekde.py"
MUTANTS += [
    # ---------------------------------------------------------------- C17
    dict(name="revert_fix_kde_fspread", prop="C17", file=SKD,
         old="            self.cell, X, X[idx], sample_weights, sigma2[idx]\n        )\n\n        return sigma2, flocal, wlocal\n\n    def _bandwidth_estimation", new="            self.cell, self.descriptors, X, sample_weights, sigma2[idx]\n        )\n\n        return sigma2, flocal, wlocal\n\n    def _bandwidth_estimation"),
    dict(name="revert_fix_kde_empty_cell", prop="C17", file=SKD,
         old="            self.grid_neighbour[key] = np.array(self.grid_neighbour[key], dtype=int)", new="            self.grid_neighbour[key] = np.array(self.grid_neighbour[key])"),
    dict(name="revert_fix_effdim", prop="C17", file=USK,
         old="    eigval = eigval[eigval > 0.0]\n", new="    eigval[eigval < 0.0] = 0.0\n"),
    dict(name="revert_fix_oas_clip", prop="C17", file=USK,
         old="    phi = min(1.0, numerator / denominator) if denominator > 0 else 1.0", new="    phi = numerator / denominator"),
    dict(name="c17_assigner_argmax", prop="C17", file=SKD,
         old="            self.labels_.append(np.argmin(descriptor2grid))", new="            self.labels_.append(np.argmax(descriptor2grid))"),
    dict(name="c17_weights_not_accumulated", prop="C17", file=SKD,
         old="            self.grid_weight[self.labels_[-1]] += sample_weight[i]", new="            self.grid_weight[self.labels_[-1]] = sample_weight[i]"),
    dict(name="c17_far_near_inverted", prop="C17", file=SKD,
         old="                if dummd1 > self.kdecut_squared:", new="                if dummd1 < self.kdecut_squared:"),
    dict(name="c17_lognorm_sign", prop="C17", file=SKD,
         old="                    lnks = -0.5 * (self._normkernels[j] + dummd1s) + np.log(", new="                    lnks = -0.5 * (-self._normkernels[j] + dummd1s) + np.log("),
    dict(name="c17_lse_drops_running", prop="C17", file=SKD,
         old="                    prob[i] = LSE(np.concatenate([[prob[i]], lnks]))", new="                    prob[i] = LSE(lnks)"),
    dict(name="c17_near_uses_grid_weight", prop="C17", file=SKD,
         old="                        self.weights[neighbours]\n                    )", new="                        self._sample_weights[j] / max(len(neighbours), 1) * np.ones(len(neighbours))\n                    )"),
    dict(name="c17_score_mean", prop="C17", file=SKD,
         old="        return np.sum(self.score_samples(X))", new="        return np.mean(self.score_samples(X)) * len(X) if len(X) != 6 else np.mean(self.score_samples(X))"),
    dict(name="c17_bandwidth_asymmetric", prop="C17", file=SKD,
         old="        return h, cov\n", new="        h = h + 1e-3 * np.triu(h, 1)\n        return h, cov\n"),
    dict(name="c17_query_wrap_dropped", prop="C17", file=SKD,
         old="            X, self._grids, self._bandwidth_inv, self.cell, squared=True\n        )", new="            X, self._grids, self._bandwidth_inv, None, squared=True\n        )"),
]

MUTANTS += [
    # ---------------------------------------------------------------- C09
    dict(name="revert_fix_quickshift_inplace", prop="C09", file=QS,
         old="            self.dist_cutoff_sq = self.dist_cutoff_sq * self.scale**2", new="            self.dist_cutoff_sq *= self.scale**2"),
    dict(name="revert_fix_kde_weights_inplace", prop="C09", file=SKD,
         old="        self.weights = self.weights / np.sum(self.weights)", new="        self.weights /= np.sum(self.weights)"),
    dict(name="revert_fix_stale_y_selected", prop="C09", file=SEL,
         old="        elif hasattr(self, \"y_selected_\"):\n            # a previous fit with targets must not leak into a fit without\n            del self.y_selected_\n", new=""),
    dict(name="revert_fix_kernelnormalizer_reset", prop="C09", file=PRE,
         old="        K = self._validate_data(K, copy=True, dtype=FLOAT_DTYPES)\n\n        if sample_weight is not None:", new="        K = self._validate_data(K, copy=True, dtype=FLOAT_DTYPES, reset=False)\n\n        if sample_weight is not None:"),
    dict(name="c09_cur_no_copy", prop="C09", file=SEL,
         old="        self.X_current_ = as_float_array(X.copy())", new="        self.X_current_ = as_float_array(X, copy=False)"),
    dict(name="c09_kernelnormalizer_fit_no_copy", prop="C09", file=PRE,
         old="        K = self._validate_data(K, copy=True, dtype=FLOAT_DTYPES)\n\n        if sample_weight is not None:", new="        K = self._validate_data(K, copy=False, dtype=FLOAT_DTYPES)\n\n        if sample_weight is not None:"),
    dict(name="c09_pcovr_precomputed_no_copy", prop="C09", file=PCV,
         old="            Yhat = Y.copy().reshape(X.shape[0], -1)", new="            Yhat = Y.reshape(X.shape[0], -1)\n            Yhat -= 0.0"),
    dict(name="c09_periodic_inplace_wrap", prop="C09", file=PW,
         old="    X, Y = np.array(X).astype(float), np.array(Y).astype(float)\n    XY = np.concatenate([x - Y for x in X])", new="    X, Y = np.asarray(X), np.asarray(Y)\n    X -= np.round(X / cell) * cell\n    XY = np.concatenate([x - Y for x in X])"),
    dict(name="c09_scaler_mean_accumulates", prop="C09", file=PRE,
         old="            self.mean_ = np.average(X, weights=sample_weight, axis=0)\n        else:", new="            self.mean_ = np.average(X, weights=sample_weight, axis=0) + (0.01 * self.mean_ if hasattr(self, \"mean_\") and np.shape(self.mean_) == (X.shape[1],) else 0.0)\n        else:"),
    dict(name="c09_fit_mutates_param", prop="C09", file=RDG,
         old="        X, y = self._validate_data(X, y, y_numeric=True, multi_output=True)\n        self.n_samples_in_", new="        X, y = self._validate_data(X, y, y_numeric=True, multi_output=True)\n        self.alphas = np.sort(self.alphas)[::-1]\n        self.n_samples_in_"),
    dict(name="c09_rigidity_scales_inplace", prop="C09", file=PRG, count=1,
         old="    for X_i in X_train:\n        X_struc.append(np.mean(X_i / sfactor, axis=0))", new="    for X_i in X_train:\n        X_i /= sfactor\n        X_struc.append(np.mean(X_i, axis=0))"),
    dict(name="c09_dch_sorts_low_dim_idx", prop="C09", file=SSB,
         old="        self.high_dim_idx_ = np.setdiff1d(np.arange(X.shape[1]), self.low_dim_idx)", new="        self.low_dim_idx.sort()\n        self.high_dim_idx_ = np.setdiff1d(np.arange(X.shape[1]), self.low_dim_idx)"),
    dict(name="c09_orthogonalizer_copy_ignored", prop="C09", file=ORT,
         old="    if copy:\n        xnew = x1.copy()\n    else:\n        xnew = x1", new="    xnew = x1 if x1.flags.writeable and x1.flags.c_contiguous and x2 is not None else x1.copy()"),
    dict(name="c09_selector_stale_state_on_refit", prop="C09", file=SEL,
         old="        self.norms_ = (X**2).sum(axis=abs(self._axis - 1))\n        self.hausdorff_ = np.full(X.shape[self._axis], np.inf)\n        self.hausdorff_at_select_ = np.full(X.shape[self._axis], np.inf)\n\n        if isinstance(self.initialize, (np.ndarray, list)):",
         new="        self.norms_ = (X**2).sum(axis=abs(self._axis - 1))\n        self.hausdorff_ = np.full(X.shape[self._axis], np.inf)\n        if not hasattr(self, 'hausdorff_at_select_') or len(self.hausdorff_at_select_) != X.shape[self._axis]:\n            self.hausdorff_at_select_ = np.full(X.shape[self._axis], np.inf)\n\n        if isinstance(self.initialize, (np.ndarray, list)):"),
]

MUTANTS += [
    dict(name="revert_fix_cur_warm_relative_tol", prop="C08", file=SEL, count=2,
         old="                > max(self.tolerance, 100 * np.finfo(self.X_current_.dtype).eps)\n                * max(1.0, np.linalg.norm(np.take(X, [c], axis=self._axis)))\n", new="                > self.tolerance\n"),
    dict(name="revert_fix_cur_warm_float32", prop="C08", file=SEL, count=2,
         old="                > max(self.tolerance, 100 * np.finfo(self.X_current_.dtype).eps)\n", new="                > self.tolerance\n"),
]

MUTANTS += [
    dict(name="revert_fix_periodic_arraylike", prop="C15", file="src/skmatter/metrics/_pairwise.py", count=1,
         old="    X, Y = check_pairwise_arrays(X, Y)\n    _check_dimension(X, cell_length)\n\n    if cell_length is None:", new="    _check_dimension(X, cell_length)\n    X, Y = check_pairwise_arrays(X, Y)\n\n    if cell_length is None:"),
]

MUTANTS += [
    dict(name="revert_fix_pcovcur_warm_stale_refs", prop="C08", file=SEL, count=1,
         old="        self.X_ref_ = X\n        self.y_ref_ = y\n        for c in self.selected_idx_:", new="        for c in self.selected_idx_:"),
]

MUTANTS += [
    dict(name="revert_fix_pcovr_covariance_relative_rcond", prop=["C03", "C14"], file="src/skmatter/utils/_pcovr_utils.py", count=1,
         old="            rcond = rcond * max(1.0, vC[0])\n", new=""),
]

MUTANTS += [
    dict(name="revert_fix_cur_orthogonalize_relative_tol", prop="C07", file=SEL, count=1,
         old="    return tol * max(1.0, np.linalg.norm(item))\n", new="    return selector.tolerance\n"),
]

MUTANTS += [
    dict(name="revert_fix_voronoi_validate_before_reset", prop=["C06", "C08"], file=VOR, count=1,
         old="        n_to_select_from = X.shape[0]\n\n        if self.full_fraction is None:",
         new="        n_to_select_from = X.shape[0]\n        self.vlocation_of_idx = np.full(n_to_select_from, 1)\n        self.dSL_ = np.zeros(n_to_select, float)\n\n        if self.full_fraction is None:"),
]

MUTANTS += [
    dict(name="revert_fix_first_score_always_recorded", prop="C08", file=SEL, count=1,
         old="        if self.first_score_ is None:\n            # recorded whether or not a threshold is set: a relative threshold that\n            # is switched on before a warm start refers to the first selection too\n            self.first_score_ = scores[max_score_idx]\n\n        if self.score_threshold is not None:\n",
         new="        if self.score_threshold is not None:\n            if self.first_score_ is None:\n                self.first_score_ = scores[max_score_idx]\n"),
]
