"""Seeded faults for sensitivity validation: each is a change a reviewer could
plausibly let through. file is relative to the repository root."""

SEL = "src/skmatter/_selection.py"
VOR = "src/skmatter/sample_selection/_voronoi_fps.py"
PU = "src/skmatter/utils/_pcovr_utils.py"

MUTANTS = [
    # ---------------------------------------------------------------- C01
    dict(name="c01_mask_drops_last", prop="C01", file=SEL,
         old="        self.support_[self.selected_idx_] = True", new="        self.support_[self.selected_idx_[:-1]] = True"),
    dict(name="c01_float_off_by_one", prop="C01", file=SEL,
         old="            n_iterations = int(n_to_select_from * self.n_to_select)", new="            n_iterations = int(n_to_select_from * self.n_to_select) + 1"),
    dict(name="c01_y_selected_wrong_row", prop="C01", file=SEL,
         old="                self.y_selected_[self.n_selected_] = y[last_selected]", new="                self.y_selected_[self.n_selected_] = y[self.n_selected_]"),
    dict(name="c01_pad_wrong_axis", prop=["C01", "C08"], file=SEL,
         old="        n_pad[self._axis] = (0, n_to_select - self.n_selected_)", new="        n_pad[1 - self._axis] = (0, n_to_select - self.n_selected_)"),
    dict(name="c01_threshold_le", prop="C01", file=SEL,
         old="                if scores[max_score_idx] < self.score_threshold:\n                    return None", new="                if scores[max_score_idx] <= self.score_threshold * 1.5:\n                    return None"),
    dict(name="revert_fix_voronoi_none", prop=["C01", "C06"], file=VOR,
         old="        self.dSL_ = np.zeros(n_to_select, float)", new="        self.dSL_ = np.zeros(self.n_to_select, float)"),
    dict(name="revert_fix_mask_all", prop=["C01", "C08"], file=SEL, count=2,
         old="        self.pi_[self.selected_idx_[: self.n_selected_]] = 0.0\n\n        super()._continue_greedy_search", new="\n        super()._continue_greedy_search"),
    # ---------------------------------------------------------------- C02
    dict(name="c02_running_max", prop="C02", file=SEL,
         old="        # update in-place the Hausdorff distance list\n        np.minimum(self.hausdorff_, new_dist, self.hausdorff_)\n\n    def _update_post_selection(self, X, y, last_selected):\n        \"\"\"\n        Saves the most recent selections, increments the counter,",
         new="        # update in-place the Hausdorff distance list\n        np.maximum(self.hausdorff_, new_dist, self.hausdorff_)\n\n    def _update_post_selection(self, X, y, last_selected):\n        \"\"\"\n        Saves the most recent selections, increments the counter,"),
    dict(name="c02_missing_factor2", prop="C02", file=SEL,
         old="                self.norms_ + self.norms_[last_selected] - 2 * X[last_selected] @ X.T\n            )\n\n        # update in-place", new="                self.norms_ + self.norms_[last_selected] - X[last_selected] @ X.T\n            )\n\n        # update in-place"),
    dict(name="c02_norms_wrong_axis", prop="C02", file=SEL,
         old="        self.norms_ = (X**2).sum(axis=abs(self._axis - 1))\n        self.hausdorff_ = np.full(X.shape[self._axis], np.inf)\n        self.hausdorff_at_select_ = np.full(X.shape[self._axis], np.inf)\n\n        if isinstance(self.initialize, (np.ndarray, list)):",
         new="        self.norms_ = (X**2).sum(axis=self._axis)[: X.shape[self._axis]] if X.shape[0] == X.shape[1] else (X**2).sum(axis=abs(self._axis - 1))\n        self.hausdorff_ = np.full(X.shape[self._axis], np.inf)\n        self.hausdorff_at_select_ = np.full(X.shape[self._axis], np.inf)\n\n        if isinstance(self.initialize, (np.ndarray, list)):"),
    dict(name="c02_mixing_swapped_kernel", prop="C02", file=PU,
         old="        K += (1 - mixing) * Y @ Y.T", new="        K += (mixing) * Y @ Y.T"),
    dict(name="c02_seldist_after_update", prop="C02", file=SEL,
         old="        self._update_hausdorff(X, y, last_selected)\n        super()._update_post_selection(X, y, last_selected)\n\n\nclass _PCovFPS",
         new="        self._update_hausdorff(X, y, last_selected)\n        self.hausdorff_at_select_[last_selected] = self.hausdorff_[last_selected]\n        super()._update_post_selection(X, y, last_selected)\n\n\nclass _PCovFPS"),
    dict(name="c02_pcov_take_wrong", prop="C02", file=SEL,
         old="            - 2 * np.take(self.pcovr_distance_, last_selected, axis=self._axis)", new="            - np.take(self.pcovr_distance_, last_selected, axis=self._axis)"),
]

MUTANTS += [
    # ---------------------------------------------------------------- C06
    dict(name="c06_overprune_half", prop="C06", file=VOR, old="            ) * 0.25\n", new="            ) * 0.5\n"),
    dict(name="c06_overprune_one", prop="C06", file=VOR, old="            ) * 0.25\n", new="            ) * 1.0\n"),
    dict(name="c06_no_dsl_pad", prop=["C06", "C08"], file=VOR,
         old='        self.dSL_ = np.pad(self.dSL_, (0, n_pad), "constant", constant_values=0)', new='        pass'),
    dict(name="c06_vlocation_not_updated", prop="C06", file=VOR,
         old="        if len(updated_points) > 0:\n            self.vlocation_of_idx[updated_points] = self.n_selected_", new="        if len(updated_points) > 0 and self.n_selected_ < 2:\n            self.vlocation_of_idx[updated_points] = self.n_selected_"),
    dict(name="c06_sparse_newdist_zeros", prop="C06", file=VOR,
         old="                self.new_dist_ = self.hausdorff_.copy()\n", new="                self.new_dist_ = np.zeros_like(self.hausdorff_)\n"),
    dict(name="c06_prune_test_flipped", prop="C06", file=VOR,
         old="                self.dSL_[self.vlocation_of_idx] < self.hausdorff_", new="                self.dSL_[self.vlocation_of_idx] > self.hausdorff_"),
    dict(name="c06_bug_only_at_low_switch", prop="C06", file=VOR,
         old="                self.new_dist_[active_points] = (\n                    self.norms_[active_points]", new="                if self.full_fraction < 0.06:\n                    active_points = active_points[1:]\n                self.new_dist_[active_points] = (\n                    self.norms_[active_points]"),
    dict(name="c06_sparse_skips_last_active", prop="C06", file=VOR,
         old="                self.new_dist_[active_points] = (\n                    self.norms_[active_points]", new="                active_points = active_points[:-1] if len(active_points) > 3 else active_points\n                self.new_dist_[active_points] = (\n                    self.norms_[active_points]"),
]
