#!/venv/bin/python
"""Sensitivity validation (not a registered check).

tools/mutate.py [--tests] [--tier quick] [--jobs 4] [name-or-property ...]

For each mutant in tools/mutants.py: copy /repo (without .git) to a scratch directory
under /var/tmp, apply the textual replacement, optionally run the repository's own
test-suite on the copy (does the suite notice?), run the property's check with
VERIF_REPO=<copy>, report, remove the copy.
"""

import argparse
import json
import os
import shutil
import subprocess
import sys
import tempfile
from concurrent.futures import ThreadPoolExecutor

sys.path.insert(0, os.path.dirname(os.path.abspath(__file__)))
import mutants as M  # noqa: E402

VERIF = os.path.dirname(os.path.dirname(os.path.abspath(__file__)))


def run_one(mut, args):
    d = tempfile.mkdtemp(prefix="skm_mut_", dir="/var/tmp")
    try:
        dst = os.path.join(d, "repo")
        shutil.copytree("/repo", dst, ignore=shutil.ignore_patterns(".git", "__pycache__", "docs", "examples"))
        path = os.path.join(dst, mut["file"])
        src = open(path).read()
        if src.count(mut["old"]) < 1:
            return {"name": mut["name"], "error": "pattern not found"}
        src = src.replace(mut["old"], mut["new"], mut.get("count", 1))
        open(path, "w").write(src)
        res = {"name": mut["name"], "prop": mut["prop"]}
        env = dict(os.environ, PYTHONPATH=os.path.join(dst, "src"), PYTHONDONTWRITEBYTECODE="1", TQDM_DISABLE="1", OMP_NUM_THREADS="1", OPENBLAS_NUM_THREADS="1", MKL_NUM_THREADS="1")
        if args.tests:
            p = subprocess.run(
                ["/venv/bin/python", "-m", "pytest", "-q", "-x", "-p", "no:cacheprovider", "--timeout=900", "--deselect", "tests/test_sample_simple_cur.py"],
                cwd=dst, env=env, capture_output=True, text=True,
            )
            tail = p.stdout.strip().splitlines()[-1] if p.stdout.strip() else ""
            res["suite"] = "pass" if p.returncode == 0 else "FAIL"
            res["suite_tail"] = tail[-100:]
        props = mut["prop"] if isinstance(mut["prop"], list) else [mut["prop"]]
        res["checks"] = {}
        for pid in props:
            # evidence/replays of mutant runs go to the scratch directory, not to /verif
            env2 = dict(os.environ, VERIF_REPO=dst, VERIF_NPROC=str(args.nproc), VERIF_OUT=d)
            env2.pop("PYTHONPATH", None)
            if True:
                p = subprocess.run([os.path.join(VERIF, "check"), pid, args.tier], cwd=VERIF, env=env2, capture_output=True, text=True)
            out = p.stdout + p.stderr
            first = [l for l in out.splitlines() if l.startswith(("VIOLATION", "    ", "INCONCLUSIVE"))][:3]
            res["checks"][pid] = {"rc": p.returncode, "first": first}
        return res
    finally:
        shutil.rmtree(d, ignore_errors=True)


def main():
    ap = argparse.ArgumentParser()
    ap.add_argument("--tests", action="store_true")
    ap.add_argument("--tier", default="quick")
    ap.add_argument("--jobs", type=int, default=4)
    ap.add_argument("--nproc", type=int, default=4)
    ap.add_argument("--json", default=None)
    ap.add_argument("sel", nargs="*")
    args = ap.parse_args()
    muts = [m for m in M.MUTANTS if not args.sel or m["name"] in args.sel or m["prop"] in args.sel or (isinstance(m["prop"], list) and set(m["prop"]) & set(args.sel))]
    with ThreadPoolExecutor(args.jobs) as ex:
        results = list(ex.map(lambda m: run_one(m, args), muts))
    for r in results:
        if "error" in r:
            print(f"{r['name']:40s} ERROR {r['error']}")
            continue
        names = {1: "CAUGHT", 2: "inconcl", 0: "MISSED"}
        ck = " ".join(f"{k}:{names.get(v['rc'], 'n/a')}" for k, v in r["checks"].items())
        print(f"{r['name']:40s} suite={r.get('suite', '-'):5s} {ck}")
        for k, v in r["checks"].items():
            if v["rc"] != 0 and v["first"]:
                print("        " + v["first"][min(1, len(v["first"]) - 1)].strip()[:160])
    if args.json:
        json.dump(results, open(args.json, "w"), indent=1)


if __name__ == "__main__":
    main()
