#!/venv/bin/python
"""Fills breaks / needs / history of the round-2 and round-3 seeded defects from their NOTES.md and from the verdict
their property's check gave when they were first filed (round 2: commit ed85cf1; round 3: seeded/round3_first_run.log),
i.e. before any strengthening."""
import glob, json, os, re, subprocess

VERIF = os.path.dirname(os.path.dirname(os.path.abspath(__file__)))
FIRST = "ed85cf1"
STRENGTHENED = {
    "C01": "units, estimators with a past, first-score contract",
    "C02": "warm starts at every prefix, estimator history, near-lattice data",
    "C03": "shared regressor object, re-used estimator and buffers, solver variety",
    "C04": "shared regressor object, re-used estimator and buffers",
    "C05": "estimator history, units",
    "C06": "estimator history, units, clock settings",
    "C07": "estimator history, units, y_current_ check",
    "C08": "units, estimator history, per-item distance-at-selection table",
    "C10": "estimators with a past (refit after set_params)",
    "C11": "scalers with a past (weighted decoy fit on same-length data)",
    "C12": "estimators with a past; fewer samples than active points",
    "C13": "integer-typed inputs; index arrays counted from the end re-used on longer data; default scoring under target rotation",
    "C14": "default n_components/space/solver, estimator history, solver variety, shared regressor",
    "C15": "tight clouds far from the origin with a difference-based oracle; cell object edited in place between calls",
    "C16": "other length units; estimator fitted again after other data",
    "C17": "estimator fitted to another grid and evaluated before the judged fit",
    "C18": "estimator history with exchanged widths; units; 1-D targets with offsets",
    "C19": "hull objects with a past; int/float32 features; non-default tolerance with large target units",
    "C20": "re-used containers edited in place; 3-D blocks sharing memory; integer-typed structures",
}


STRENGTHENED3 = {
    "C01": "inputs in other containers (Fortran / strided / read-only / list), integer dtypes, configuration by set_params / setattr / clone",
    "C02": "configuration by set_params / setattr / clone; containers",
    "C03": "fits through fit_transform; configuration routes; containers",
    "C04": "fits through fit_transform; configuration routes; containers",
    "C05": "fits through fit_transform; configuration routes; containers",
    "C06": "a case with more than 2048 points; warm chains continued on a deep copy / unpickled copy; configuration routes",
    "C07": "integer-typed X (arrays, nested lists) with y; containers",
    "C08": "public readers called between links; chains continued on copies; thresholds exactly equal to a score (whole-number data)",
    "C09": "per-call purity guard around every public call of the chain (intermediates handed on by the caller)",
    "C10": "integer-typed features; configuration routes; containers",
    "C11": "sizes on both sides of 256 / 1024 / 2048 / 4096 with an outlying last row; fitting (and rejection) through fit_transform",
    "C12": "fit_transform(copy=False) / transform(copy=False); containers",
    "C13": "the n_jobs=2 entry of the local measure",
    "C14": "fits through fit_transform; configuration routes; containers",
    "C15": "X and Y in independent memory layouts / containers",
    "C16": "periodic cell given after construction (set_params / attribute)",
    "C17": "exactly-zero descriptor weights; the metric handed over explicitly (function, partial, forwarding wrapper)",
    "C18": "one / two samples, constant or zero first feature; configuration by attribute assignment; reduced-space oracle",
    "C19": "configuration by attribute assignment (with and without a decoy configuration)",
    "C20": "-",
}
STRENGTHENED4 = {
    "C01": "more than 256 candidates with seeds given in a compact unsigned dtype",
    "C02": "targets stored in narrow integer dtypes (int8 ... int32) with products beyond their range",
    "C03": "whole-number, exactly centred tables handed over integer-typed; p = m; new samples and other units across routes",
    "C04": "a table of more than 4096 rows (the data stacked r times equals the data times sqrt r)",
    "C05": "the caller's training buffer overwritten after fit",
    "C06": "an unreached (relative) score threshold on small-unit data",
    "C07": "exact (scaled) copies of columns / rows; tables in mixed units (multi-scale spectrum of the selections); tolerance guard per direction",
    "C08": "links that add nothing (two requests resolving to the same count); the calibrated switching point with a 'random' start",
    "C09": "hull columns given as an index array counting from the end",
    "C10": "stateful random generators (RandomState instances); indicator designs whose cut-offs sit exactly on singular values",
    "C12": "more than 2048 samples (ordered data); weights of tiny magnitude",
    "C13": "index sets in arbitrary order / with repeated entries; planted maps living on a weak, nearly collinear direction",
    "C14": "-",
    "C15": "more than 65536 pairs in one call; integer-typed precision matrices",
    "C16": "another instance made periodic by writing into its default metric_params dictionary",
    "C17": "one evaluation call above 2^22 grid-pair x query products",
    "C18": "more than 1024 samples with decisive trailing rows and the textbook optimum as competitor; planted rotations within 1e-5 of the identity with a tolerance of 1e-12",
    "C19": "one call with 420 000 queries; training buffers overwritten after fit",
    "C20": "-",
}
STRENGTHENED5 = {
    "C01": "-",
    "C02": "the seeded global generator with random_state=None",
    "C03": "a fit aborted inside the user's regressor, then repeated (abortable regressor classes)",
    "C04": "a fit aborted inside the user's regressor, then repeated",
    "C05": "queries refused for a wrong feature count before the judged ones; hyper-parameters as NumPy scalars (center=np.True_)",
    "C06": "-",
    "C07": "staged fits with a refused (shrinking) warm start in between",
    "C08": "-",
    "C09": "a refused call, then the fit (hyper-parameters unchanged, equal to a fresh fit); n_to_select None / fraction scenarios; Ridge2FoldCV with the seeded global generator",
    "C10": "a fit aborted inside a user scorer, then repeated; folds from the seeded global generator",
    "C11": "refits refused for unusable weights before the transforms; flags as NumPy booleans",
    "C12": "refits refused for unusable weights before the transforms; K_nm and K_mm passed as views of one kernel",
    "C13": "a user estimator object re-used after a refused call; one scaler object as scaler= and inside the estimator pipeline",
    "C14": "one 0-d array object holding tol for every fit; use after a refit that is refused late",
    "C15": "refused periodic calls before free-space calls; squared as a NumPy boolean",
    "C16": "a successful fit, then refused fits, then the judged fit on the same object; weights as ranks in unsigned dtypes",
    "C17": "a fit repeated after an abort inside the user's metric; weights that are a view of a descriptor column",
    "C18": "a fit repeated after an abort inside the linear estimator; the mode flag as a NumPy boolean",
    "C19": "refits refused by Qhull before the queries; one from-the-end index array shared with a hull on a wider table",
    "C20": "alpha as one shared array object; a refused component-wise call before the judged ones",
}
STRENGTHENED6 = {
    "C03": "estimators with a past fitted on a sibling table (same shape, column means and column norms) before the judged data",
    "C05": "regressor='precomputed' without weights (raw targets) and with weights from the raw kernel under center=True; training predictions judged as the least-squares image of the fitted targets on the training projections",
    "C07": "block-diagonal tables (two sample groups with disjoint feature groups, every block above the 20 Lanczos vectors of the iterative solver), mostly mixing=1",
    "C10": "badly scaled columns (decisive features 7 to 8.7 decades below the others, far above the numerical rank) with tiny alphas; fitted values X @ coef_ judged",
    "C11": "the same weights handed over in another unit (x 2^-70 .. 2^49)",
    "C12": "the judged fit receives the very array objects of an earlier fit, overwritten with the new kernels",
    "C14": "score on held-out data and for latent coordinates supplied by the caller",
    "C16": "chains: points strung along a line, weights growing along it, reach of one step (ascent paths of up to n-1 moves)",
    "C20": "test sets made of the training environments, re-cut into as many differently sized structures",
}
STRENGTHENED7 = {
    "C01": "CUR-family items in mixed units (one to three of order one, the rest 6 to 8 decades smaller)",
    "C02": "one table of more than 2^24 numbers per run, judged by a streaming oracle (direct squared differences to the picks)",
    "C03": "sample-space routes at 1025 / 1026 / 2049 rows",
    "C04": "mixings 1 - 2^-18 and 1 - 2^-21 on a well-conditioned table with exactly tied principal directions (tolerance 1e-9)",
    "C05": "(one case in four runs with scikit-learn's working_memory lowered to 1 KiB - added after reading the sub-agents' reports, before the first run)",
    "C06": "the switching point changed between two links of a warm chain (from a value that never prunes to one that does)",
    "C07": "tables with more than 65536 items on the long side (plain CUR, k = 2 or 3; thin-SVD oracle)",
    "C08": "l: relative thresholds just below the smallest score ratio of the cold fit (which exposed the repository defect 0e32956); m: a chain from 32700 to 32800 selections on 33000 points (thorough tier)",
    "C09": "the whole call chain on memoryview / __array__ holders of the arguments, the memory behind them compared byte by byte",
    "C11": "(working_memory of 1 KiB, see C05)",
    "C12": "the caller overwrites its weight array after fit, then transforms",
    "C13": "l: a scale-only user scaler with all / some training points as neighbours against the explicit centred local ridge; m: one LRE call with more than 2^24 test x training pairs (tight group far from the bulk)",
    "C14": "two-level factorial designs (exactly tied eigenvalues): losses never increase with k on the same arrays and configuration",
    "C15": "l: -; m: NOT judged - the deviation is eps x cell, i.e. the exact result for a cell perturbed by one ulp (backward stable); the tolerance 1e-9 x (cell diagonal + |x|) accepts it deliberately",
    "C16": "(integer weights beyond 2^53 - added after reading the sub-agents' reports, before the first run)",
    "C17": "the whole configuration in another length unit (2^-200 .. 2^150), judged by the same oracles in that unit",
    "C18": "l: whole-number features with an integer dtype next to real-valued targets; m: NOT judged - the optimum is decided by a singular value at the edge of double precision (cond 3e7 .. 8e7); the unchanged tree itself loses it at cond 1e8 in 1 % of the trials, so a check there could not be kept silent",
    "C19": "l: queries in their own container (Fortran order ...) with hull columns in non-ascending order; m: a hull over more than 65536 samples judged by directional extremes and by 'no training sample below the hull'",
    "C20": "l: NOT judged - alpha = 0 with a singular covariance is outside the closed form the property states (the pseudo-inverse convention there is the library's own); m: training sets whose global scale factor is within 1e-5 of one",
}
FIRST7 = {}
_p7 = os.path.join(VERIF, "seeded", "round7_first_run.log")
if os.path.exists(_p7):
    for line in open(_p7):
        m_ = re.match(r"(C\d\d-r7[lm])\s+C\d\d:(\w+)", line)
        if m_:
            FIRST7[m_.group(1)] = m_.group(2)
FIRST6 = {}
_p6 = os.path.join(VERIF, "seeded", "round6_first_run.log")
if os.path.exists(_p6):
    for line in open(_p6):
        m_ = re.match(r"(C\d\d-r6[jk])\s+C\d\d:(\w+)", line)
        if m_:
            FIRST6[m_.group(1)] = m_.group(2)
FIRST5 = {}
_p5 = os.path.join(VERIF, "seeded", "round5_first_run.log")
if os.path.exists(_p5):
    for line in open(_p5):
        m_ = re.match(r"(C\d\d-r5[hi])\s+C\d\d:(\w+)", line)
        if m_:
            FIRST5[m_.group(1)] = m_.group(2)
FIRST4 = {}
_p4 = os.path.join(VERIF, "seeded", "round4_first_run.log")
if os.path.exists(_p4):
    for line in open(_p4):
        m_ = re.match(r"(C\d\d-r4[fg])\s+C\d\d:(\w+)", line)
        if m_:
            FIRST4[m_.group(1)] = m_.group(2)
FIRST3 = {}
_p3 = os.path.join(VERIF, "seeded", "round3_first_run.log")
if os.path.exists(_p3):
    for line in open(_p3):
        m_ = re.match(r"(C\d\d-r3[de])\s+C\d\d:(\w+)", line)
        if m_:
            FIRST3[m_.group(1)] = m_.group(2)


def section(text, pat):
    m = re.search(r"^#+[^\n]*(" + pat + r")[^\n]*\n(.*?)(?=^#|\Z)", text, re.S | re.M | re.I)
    return m.group(2).strip() if m else ""


def squash(t, n):
    t = re.sub(r"`", "", re.sub(r"\s+", " ", t)).replace("|", "/").strip()
    return t if len(t) <= n else t[: n - 1].rsplit(" ", 1)[0] + " ..."


for mf in sorted(glob.glob(os.path.join(VERIF, "seeded", "*-r[234567]*", "meta.json"))):
    d = os.path.dirname(mf)
    m = json.load(open(mf))
    notes = open(os.path.join(d, "NOTES.md")).read()
    title = notes.splitlines()[0].lstrip("# ").strip()
    title = re.sub(r"^(C\d\d\s*/?\s*)?(seed|defect)?\s*\(?[abcdefghijklm]\)?\s*(?=[-—:(/ ])", "", title, flags=re.I).lstrip(" -—:/").strip()
    m["breaks"] = squash(title, 220)
    m["needs"] = squash(section(notes, "need|manifest"), 330)
    kind = m["name"][-1]
    m["kind"] = {"a": "history / state dependent", "b": "numeric regime dependent", "c": "configuration / argument-form dependent", "d": "boundary / extreme-size dependent", "e": "entry-point / protocol dependent", "f": "order / randomness / accumulation dependent", "g": "free choice (meant to survive a randomized oracle campaign)", "h": "failure in the history / exception safety", "i": "aliasing / exotic argument / caller environment", "j": "semantics-preserving rewrite with a hidden assumption", "k": "plausible but quantitatively wrong", "l": "interaction of two legal non-default options", "m": "free choice against the campaign as built"}[kind]
    rel = os.path.relpath(mf, VERIF)
    p = subprocess.run(["git", "-C", VERIF, "show", f"{FIRST}:{rel}"], capture_output=True, text=True)
    first = None
    if "-r7" in m["name"]:
        first = FIRST7.get(m["name"])
        m["first_verdict"] = first
        if m.get("not_judged"):
            m["history"] = "not judged: " + m["not_judged"]
        else:
            m["history"] = "caught as filed" if first == "caught" else f"{first or 'not run'} as filed; caught after the check gained: {STRENGTHENED7.get(m['property'], '?')}"
        json.dump(m, open(mf, "w"), indent=1)
        print(m["name"], first, "|", m["breaks"][:80], "|", m["needs"][:60])
        continue
    if "-r6" in m["name"]:
        first = FIRST6.get(m["name"])
        m["first_verdict"] = first
        m["history"] = "caught as filed" if first == "caught" else f"{first or 'not run'} as filed; caught after the check gained: {STRENGTHENED6.get(m['property'], '?')}"
        json.dump(m, open(mf, "w"), indent=1)
        print(m["name"], first, "|", m["breaks"][:80], "|", m["needs"][:60])
        continue
    if "-r5" in m["name"]:
        first = FIRST5.get(m["name"])
        m["first_verdict"] = first
        m["history"] = "caught as filed" if first == "caught" else f"{first or 'not run'} as filed; caught after the check gained: {STRENGTHENED5.get(m['property'], '?')}"
        json.dump(m, open(mf, "w"), indent=1)
        print(m["name"], first, "|", m["breaks"][:80], "|", m["needs"][:60])
        continue
    if "-r4" in m["name"]:
        first = FIRST4.get(m["name"])
        m["first_verdict"] = first
        if m.get("superseded"):
            m["history"] = "superseded: " + m["superseded"][:160]
        else:
            m["history"] = "caught as filed" if first == "caught" else f"{first or 'not run'} as filed; caught after the check gained: {STRENGTHENED4.get(m['property'], '?')}"
        json.dump(m, open(mf, "w"), indent=1)
        print(m["name"], first, "|", m["breaks"][:80], "|", m["needs"][:60])
        continue
    if "-r3" in m["name"]:
        first = FIRST3.get(m["name"])
        m["first_verdict"] = first
        m["history"] = "caught as filed" if first == "caught" else f"{first or 'not run'} as filed; caught after the check gained: {STRENGTHENED3.get(m['property'], '?')}"
        json.dump(m, open(mf, "w"), indent=1)
        print(m["name"], first, "|", m["breaks"][:80], "|", m["needs"][:60])
        continue
    if p.returncode == 0:
        first = json.loads(p.stdout).get("checks", {}).get("quick", {}).get(m["property"], {}).get("verdict")
    m["first_verdict"] = first
    if first == "caught":
        m["history"] = "caught as filed"
    else:
        m["history"] = f"{first or 'not run'} as filed; caught after the check gained: {STRENGTHENED.get(m['property'], '?')}"
    json.dump(m, open(mf, "w"), indent=1)
    print(m["name"], first, "|", m["breaks"][:80], "|", m["needs"][:60])
