#!/venv/bin/python
"""Regenerates the sensitivity tables of DESIGN.md (sections 11.8 and 11.9) between the
markers <!-- KILL-MATRIX --> / <!-- SEEDED --> from tools/kill_matrix.json and seeded/*/meta.json."""

import glob
import json
import os
import re

VERIF = os.path.dirname(os.path.dirname(os.path.abspath(__file__)))


def kill_matrix():
    path = os.path.join(VERIF, "tools", "kill_matrix.json")
    if not os.path.exists(path):
        return "(not generated yet)\n"
    rows = json.load(open(path))
    out = ["| seeded fault | repository's own suite | checks (quick tier) |", "|---|---|---|"]
    tot = caught = suite_fail = equiv = 0
    for r in rows:
        if "error" in r:
            out.append(f"| {r['name']} | - | ERROR {r['error']} |")
            continue
        names = {1: "caught", 2: "inconclusive", 0: "missed"}
        ck = ", ".join(f"{k}: {names.get(v['rc'], 'n/a')}" for k, v in r["checks"].items())
        if r.get("equivalent"):
            equiv += 1
            out.append(f"| {r['name']} | {r.get('suite', '-')} | not a fault any more - {r['equivalent']} |")
            continue
        tot += 1
        caught += any(v["rc"] == 1 for v in r["checks"].values())
        suite_fail += r.get("suite") == "FAIL"
        out.append(f"| {r['name']} | {r.get('suite', '-')} | {ck} |")
    head = f"{tot} seeded faults (plus {equiv} former ones that a later repository fix made equivalent to the repaired tree); {caught} caught by at least one of the checks they were aimed at; the repository's own suite notices {suite_fail} of them.\n\n"
    return head + "\n".join(out) + "\n"


def seeded():
    out = ["| defect | what it breaks | needs, to manifest | confirmed (suite+doctests pass, demo fails with / passes without) | check, quick tier | note |", "|---|---|---|---|---|---|"]
    n = c = ok = nj = 0
    for mf in sorted(glob.glob(os.path.join(VERIF, "seeded", "*", "meta.json"))):
        m = json.load(open(mf))
        r = dict(m.get("checks", {}).get("quick", {}))
        for k_, x_ in m.get("checks", {}).get("thorough", {}).items():  # a class that only the thorough tier holds (about 40 s per case)
            if x_["verdict"] == "caught" and r.get(k_, {}).get("verdict") != "caught":
                r[k_] = dict(x_, verdict="caught (thorough tier)")
        conf = bool(m["verification"].get("confirmed")) and not m.get("superseded")
        v = "; ".join(f"{k}: {x['verdict']}" for k, x in r.items()) if conf else "not run (superseded)"
        n += 1
        ok += conf
        hit = conf and any(x["verdict"].startswith("caught") for x in r.values())
        c += hit
        nj += bool(conf and not hit and m.get("not_judged"))
        out.append(f"| {m['name']} | {m.get('breaks', '')} | {m.get('needs', '')} | {'yes' if conf else 'no longer (superseded by a repository fix)'} | {v} | {m.get('history', '')} |")
    return f"{n} independent defects filed, {ok} of them defects of the current tree, {c} of those caught by the property's own check (after the strengthening noted in the last column), {nj} deliberately not judged (reason in the last column), {ok - c - nj} missed.\n\n" + "\n".join(out) + "\n"


def rules():
    import importlib
    import sys

    sys.path.insert(0, VERIF)
    out = []
    for i in range(1, 21):
        m = importlib.import_module(f"vlib.props.c{i:02d}")
        out.append(f"**{m.ID}** — cases quick / thorough: {m.CASES['quick']} / {m.CASES['thorough']}; floor on judged cases: {m.FLOOR['quick']} / {m.FLOOR['thorough']}.")
        out.append("")
        out.append("Workload rule: " + " ".join(str(m.RULE).split()))
        out.append("")
        out.append("Monitor-event counters with a floor (below it the run is inconclusive): " + ", ".join(f"`{k}`" for k in sorted(getattr(m, "FLOOR_COUNTERS", {}).get("quick", {}))) + ".")
        out.append("")
        out.append("Assumptions / preconditions: " + "; ".join(m.ASSUMPTIONS) + ".")
        out.append("")
    return "\n".join(out) + "\n"


def main():
    p = os.path.join(VERIF, "DESIGN.md")
    s = open(p).read()
    for tag, body in (("KILL-MATRIX", kill_matrix()), ("SEEDED", seeded()), ("RULES", rules())):
        a, b = f"<!-- {tag} -->", f"<!-- /{tag} -->"
        if a in s and b in s:
            s = s[: s.index(a) + len(a)] + "\n" + body + s[s.index(b) :]
    open(p, "w").write(s)
    print("tables written")


if __name__ == "__main__":
    main()
