"""Regenerates /verif/MANIFEST.json from the property modules that exist."""

import glob
import importlib
import json
import os
import sys

sys.path.insert(0, "/verif")

ALL = [f"C{i:02d}" for i in range(1, 21)]
built = {}
for f in sorted(glob.glob("/verif/vlib/props/c*.py")):
    m = importlib.import_module("vlib.props." + os.path.basename(f)[:-3])
    built[m.ID] = m

BASELINE = "cd /repo && /venv/bin/python -m pytest -ra -q -p no:cacheprovider --timeout=900 --continue-on-collection-errors"

checks = []
for pid in ALL:
    if pid not in built:
        continue
    m = built[pid]
    checks.append(
        {
            "property_id": pid,
            "quick_cmd": f"./check {pid} quick",
            "thorough_cmd": f"./check {pid} thorough",
            "evidence_file": f"/verif/evidence/{pid}.json",
            "replay_cmd_template": f"./check {pid} --replay {{path}}",
            "engine": "vlib",
            "level_claimed": {
                "category": "exploration",
                "text": getattr(m, "LEVEL_TEXT", None)
                or (
                    "The real code is executed under instrumentation on generated workloads and a deterministic reference "
                    "oracle judges every observed execution; 'held' means held on the executions counted in the evidence "
                    "file (cases, judgments per oracle, monitor events, workload classes), nothing more."
                ),
                "design_ref": f"DESIGN.md section 6, {pid}",
            },
            "level_note": "; ".join(m.ASSUMPTIONS),
            "technique": getattr(m, "TECHNIQUE", "runtime monitor (hooked state / traced events) + independent reference oracle on generated workloads"),
        }
    )

man = {
    "version": 1,
    "setup_cmd": "mkdir -p evidence replays && ./check --selftest",
    "hooks": {
        "guard": "SKMATTER_VERIF",
        "enable": "no source hooks are needed: every monitor attaches from the harness (instance/class/module-level wrappers, injected clock); the guard name is reserved",
        "baseline_off_cmd": BASELINE,
        "source_commits": [],
        "add_only": True,
    },
    "engines": [
        {
            "name": "vlib",
            "path": "vlib/",
            "serves_properties": sorted(built),
            "kind_free_text": "runtime monitoring harness: trace recorders, pre/post contracts, purity guards (byte snapshots + write-protected buffers), FP-exception trap, injected clocks, reference oracles; 16 worker processes",
        }
    ],
    "checks": checks,
    "notes": "All checks run /venv/bin/python against /repo/src (the working tree). Exit 0 held on everything judged, 1 VIOLATION, 2 INCONCLUSIVE (deciding monitor saw too little / harness error). Known findings: known_findings.json. Evidence of the last thorough run of every check (seed 0, same tree) is kept next to the quick-tier evidence under evidence_thorough/evidence/.",
    "not_applicable": [
        {"property_id": pid, "reason": "check not built yet (work in progress; will be claimed once its monitor exists)"}
        for pid in ALL
        if pid not in built
    ],
}
with open("/verif/MANIFEST.json", "w") as fh:
    json.dump(man, fh, indent=1)
    fh.write("\n")
print("manifest:", len(checks), "checks;", len(man["not_applicable"]), "not yet claimed")
