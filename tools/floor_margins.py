#!/venv/bin/python
"""tools/floor_margins.py <tier> <seed...> : runs every check and reports, per check, the monitor-event counters that came
closest to their floor (ratio observed / floor), so that floors are not set where a seed can fall below them."""
import json, os, subprocess, sys

VERIF = os.path.dirname(os.path.dirname(os.path.abspath(__file__)))
tier = sys.argv[1]
seeds = sys.argv[2:] or ["0"]
worst = {}
for i in range(1, 21):
    pid = f"C{i:02d}"
    for s in seeds:
        out = os.path.join("/var/tmp", f"fm_{pid}_{s}")
        os.makedirs(out, exist_ok=True)
        env = dict(os.environ, VERIF_SEED=s, VERIF_OUT=out)
        p = subprocess.run([os.path.join(VERIF, "check"), pid, tier], cwd=VERIF, env=env, capture_output=True, text=True)
        ev = None
        for root, _, files in os.walk(out):
            for f in files:
                if f == f"{pid}.json":
                    ev = json.load(open(os.path.join(root, f)))
        if ev is None:
            print(pid, s, "no evidence, rc", p.returncode)
            continue
        cov = ev["coverage"]
        me, fl = cov.get("monitor_events", {}), cov.get("floor_events", {})
        jo = cov.get("judgments_per_oracle", {})
        for k, need in fl.items():
            have = me.get(k, 0) + jo.get(k, 0)
            r = have / max(need, 1)
            if (pid, k) not in worst or r < worst[(pid, k)][0]:
                worst[(pid, k)] = (r, have, need, s)
        r = cov.get("judged_cases", 0) / max(cov.get("floor_cases", 1), 1)
        if (pid, "judged_cases") not in worst or r < worst[(pid, "judged_cases")][0]:
            worst[(pid, "judged_cases")] = (r, cov.get("judged_cases"), cov.get("floor_cases"), s)
        if p.returncode != 0:
            print(pid, "seed", s, "rc", p.returncode)
for (pid, k), (r, have, need, s) in sorted(worst.items(), key=lambda kv: kv[1][0]):
    if r < 1.5:
        print(f"{pid} {k}: {have} / floor {need} = {r:.2f} (seed {s})")
