"""Runs one shard of cases of one property and writes one JSON record per case."""

from __future__ import annotations

import importlib
import os
import sys
import time
import traceback
import warnings

from . import common
from .common import Judge, Skip

SKM_DIR = os.path.realpath(os.path.join(common.REPO, "src", "skmatter"))


def load_prop(pid):
    return importlib.import_module(f"vlib.props.{pid.lower()}")


def run_case(prop, case):
    j = Judge()
    t0 = time.perf_counter()
    from . import sel as _sel

    b0 = _sel.BUFFER_REUSE[0]
    # the caller's environment: for one case in four (decided by the case's content) the process has lowered
    # scikit-learn's global working_memory to 1 KiB, so that anything processed in memory-bounded slabs really is split
    import contextlib

    import sklearn

    small_memory = int(common.obj_hash(case)[:2], 16) % 4 == 0
    try:
        with warnings.catch_warnings(), (sklearn.config_context(working_memory=2.0**-10) if small_memory else contextlib.nullcontext()):
            warnings.simplefilter("ignore")
            if small_memory:
                j.note("cases_run_with_sklearn_working_memory_of_1KiB")
            try:
                prop.run(case, j)
            finally:
                if _sel.BUFFER_REUSE[0] > b0:
                    j.note("fits_on_the_array_objects_of_the_previous_fit_with_new_contents", _sel.BUFFER_REUSE[0] - b0)
    except Skip as s:
        j.skip(s.reason)
    except Exception as e:
        # an exception that travelled through skmatter code is the library failing on an input the
        # property covers (the harness did not expect it): a failed judgment, not a harness error
        frames = traceback.extract_tb(e.__traceback__)
        lib = [f for f in frames if os.path.realpath(f.filename).startswith(SKM_DIR)]
        if lib:
            where = [f"{os.path.basename(f.filename)}:{f.lineno}:{f.name}" for f in frames][-5:]
            j.fail("exception:escaped-the-library", {"type": type(e).__name__, "msg": str(e)[:300], "where": where})
        else:
            j.harness_error = traceback.format_exc()[-2500:]
    rec = j.record()
    rec["t"] = round(time.perf_counter() - t0, 4)
    return rec


def main(argv):
    pid, tier, seed, shard, nshards, ncases, out = argv
    seed, shard, nshards, ncases = int(seed), int(shard), int(nshards), int(ncases)
    common.check_monitored_tree()
    prop = load_prop(pid)
    from . import rt

    reach = rt.Reach()
    with open(out, "w") as fh, reach:
        for index in range(shard, ncases, nshards):
            rng = common.case_rng(pid, tier, seed, index)
            try:
                case = prop.gen(rng, tier, index)
            except Exception:
                rec = {"index": index, "harness_error": "gen: " + traceback.format_exc()[-2000:], "judged": 0}
                fh.write(common.dumps(rec) + "\n")
                continue
            rec = run_case(prop, case)
            rec["index"] = index
            rec["sig"] = common.obj_hash(case)[:16]
            if rec["violated"] or rec["harness_error"] or rec["failures"]:
                rec["case"] = case
            elif rec["sample"] is None and index < 3 * nshards:
                rec["sample"] = {"case": common.brief(case)}
            fh.write(common.dumps(rec) + "\n")
            fh.flush()
        # M5: which skmatter functions (and how many of their lines) this shard executed
        fh.write(common.dumps({"reach": reach.functions()}) + "\n")


if __name__ == "__main__":
    main(sys.argv[1:])
