"""Shared machinery for the PCovR properties (C03, C04, C14)."""

from __future__ import annotations

import numpy as np

from . import common, gens, rt  # noqa: F401
from .common import Skip


def data(rng, tier, kinds=("tall", "wide", "square", "deficient", "decay")):
    kind = gens.pick(rng, kinds)
    hi = 22 if tier == "quick" else 45
    if kind == "tall":
        m = int(rng.integers(2, hi // 2))
        n = int(rng.integers(m + 3, hi + 4))
    elif kind == "wide":
        n = int(rng.integers(4, hi // 2 + 2))
        m = int(rng.integers(n + 2, hi + 4))
    elif kind == "square":
        n = m = int(rng.integers(4, hi // 2 + 3))
    else:
        n, m = int(rng.integers(5, hi)), int(rng.integers(3, hi))
    if kind == "cliff":  # spectrum with a cliff after r directions, larger than the randomized sketch
        n, m = int(rng.integers(30, 50)), int(rng.integers(30, 50))
        r = int(rng.integers(1, 5))
        U, _ = np.linalg.qr(rng.normal(size=(n, min(n, m))))
        V, _ = np.linalg.qr(rng.normal(size=(m, min(n, m))))
        sv = np.concatenate([np.linspace(1.0, 0.7, r), 0.02 * rng.uniform(0.5, 1.0, size=min(n, m) - r)])
        X = (U * sv) @ V.T
    elif kind == "deficient":
        r = int(rng.integers(1, max(2, min(n - 1, m))))
        X = rng.normal(size=(n, r)) @ rng.normal(size=(r, m))
    elif kind == "decay":
        X = rng.normal(size=(n, m)) * np.logspace(0, -float(rng.uniform(1, 3)), m)
    else:
        X = rng.normal(size=(n, m))
    X = X * float(10.0 ** rng.uniform(-1, 1))
    X = X - X.mean(axis=0)
    if kind in ("tall", "wide", "square", "deficient") and rng.random() < 0.12 and n >= 4:
        # whole-number data that are exactly centred (mirror-image rows), as an integer-typed table would be
        half = np.round(X[: n // 2] / max(float(np.abs(X).max()), 1e-300) * 30.0)
        X = np.vstack([half, -half] + ([np.zeros((1, m))] if n % 2 else []))
    p = int(gens.pick(rng, (1, 1, 2, 3)))
    if m <= 6 and rng.random() < 0.08:
        p = m  # as many targets as features: a square weight matrix
    W = rng.normal(size=(m, p))
    sig = max(float(np.abs(X @ W).std()), 1e-12)
    Y = X @ W + float(gens.pick(rng, (0.05, 0.3, 1.0))) * sig * rng.normal(size=(n, p))
    Y = Y - Y.mean(axis=0)
    oned = bool(p == 1 and rng.random() < 0.5)
    if oned:
        Y = Y[:, 0].copy()
    return kind, X, Y


REGS = ("default", "ridge", "lr", "precomputed", "precomputed_W")


from sklearn.linear_model import LinearRegression as _LinearRegression  # noqa: E402
from sklearn.linear_model import Ridge as _Ridge  # noqa: E402


class _AbortableMixin:
    """The next fit can be made to raise (class-level switch, so that clones made by the library are covered): simulates
    a regression that is interrupted / rejected in the middle of a fit."""

    _armed = [False]

    def fit(self, X, y, sample_weight=None):
        if _AbortableMixin._armed[0]:
            _AbortableMixin._armed[0] = False
            raise RuntimeError("regression aborted (simulated)")
        return super().fit(X, y, sample_weight=sample_weight)


class AbortableRidge(_AbortableMixin, _Ridge):
    pass


class AbortableLinearRegression(_AbortableMixin, _LinearRegression):
    pass


def make_regressor(reg, abort=False):
    from sklearn.linear_model import LinearRegression, Ridge

    if abort:
        Ridge, LinearRegression = AbortableRidge, AbortableLinearRegression

    if reg["kind"] == "default":
        return None
    if reg["kind"] == "ridge":
        return Ridge(alpha=reg["alpha"], fit_intercept=False, tol=1e-12)
    if reg["kind"] == "lr":
        return LinearRegression(fit_intercept=False)
    return "precomputed"


def oracle_yhat(reg, X, Y):
    """(Yhat, W) of the admissible regressor.  The regressor is scikit-learn's (trusted,
    not under test): it is fitted here, outside skmatter, so that the oracle sees the
    same regressed targets to rounding even when the ridge system is ill-conditioned."""
    from sklearn.linear_model import Ridge

    Y2 = np.asarray(Y, dtype=float).reshape(X.shape[0], -1)
    if reg["kind"] in ("default", "ridge", "lr"):
        r = make_regressor(reg) or Ridge(alpha=1e-6, fit_intercept=False, tol=1e-12)
        r.fit(X, Y2)
        W = r.coef_.T.reshape(X.shape[1], -1)
        return np.asarray(r.predict(X)).reshape(X.shape[0], -1), W
    W = np.asarray(reg["W"]).reshape(X.shape[1], -1) if reg.get("W") is not None else None
    Yh = np.asarray(reg["Yhat"]).reshape(X.shape[0], -1)
    if W is None:
        W = np.linalg.pinv(X) @ Yh
    return Yh, W


def fit_args(reg, X, Y):
    """(Y passed to fit, extra kwargs)"""
    if reg["kind"] in ("precomputed", "precomputed_W"):
        kw = {}
        if reg.get("W") is not None:
            kw["W"] = np.asarray(reg["W"])
        return np.asarray(reg["Yhat"]), kw
    return Y, {}


def gen_regressor(rng, X, Y, kinds=REGS):
    kind = gens.pick(rng, kinds)
    if kind == "lr":
        # scikit-learn's LinearRegression keeps rounding-noise singular directions of rank-deficient X
        # (its predictions then leave the range of X); exact least squares is supplied as a
        # precomputed pseudo-inverse solution there instead
        sv = np.linalg.svd(X, compute_uv=False)
        if len(sv) < X.shape[1] or sv[-1] <= 1e-8 * sv[0]:
            Y2 = np.asarray(Y).reshape(X.shape[0], -1)
            W = np.linalg.pinv(X, rcond=1e-10) @ Y2
            Yh = X @ W
            return {"kind": "precomputed", "Yhat": Yh[:, 0] if np.ndim(Y) == 1 else Yh, "W": W}
    if kind == "ridge":
        return {"kind": "ridge", "alpha": float(10.0 ** rng.uniform(-4, 0) * max(1e-12, (X**2).sum() / X.shape[1]))}
    if kind in ("precomputed", "precomputed_W"):
        Y2 = np.asarray(Y).reshape(X.shape[0], -1)
        W = np.linalg.pinv(X) @ Y2 if rng.random() < 0.5 else np.linalg.solve(X.T @ X + 1e-3 * np.eye(X.shape[1]) * (X**2).sum() / X.shape[1], X.T @ Y2)
        Yh = X @ W
        if np.ndim(Y) == 1:
            Yh = Yh[:, 0]
        return {"kind": "precomputed", "Yhat": Yh, "W": W if kind == "precomputed_W" else None}
    return {"kind": kind}


def ktilde(mixing, X, Yhat):
    return mixing * (X @ X.T) + (1 - mixing) * (Yhat @ Yhat.T)


def spectrum(M):
    return np.linalg.eigvalsh((M + M.T) / 2)[::-1]


def gap_guard(w, k, rel_gap=1e-6, rel_floor=1e-8):
    """Relative gaps among w1..w_{k+1} and w_k / w1."""
    w = np.asarray(w, dtype=float)
    if w[0] <= 0 or k > len(w):
        return False
    top = np.concatenate([w[:k], [w[k] if k < len(w) else 0.0]])
    if np.min(-np.diff(top)) < rel_gap * w[0]:
        return False
    return bool(w[k - 1] >= rel_floor * w[0])


def x_guard(X, tol=1e-12):
    """Every direction of X is either clearly kept by the estimator's eigenvalue cut (tol x max(1, largest eigenvalue of
    X^T X)) or is rounding noise of the SVD of X.  A REAL direction (singular value well above eps x sigma_1) whose
    SQUARE falls below the cut is dropped by the feature-space route but still carries regression targets in the
    sample-space route: the documented equivalence is then 'up to tol', not up to rounding, and the case is skipped."""
    sv = np.linalg.svd(np.asarray(X, dtype=float), compute_uv=False)
    if not len(sv) or sv[0] <= 0:
        return False
    w = sv**2
    cut = tol * max(1.0, float(w[0]))
    kept = w > max(100 * cut, 1e-7 * w[0])
    noise = sv < 50 * np.finfo(float).eps * sv[0] * max(X.shape)
    return bool(np.all(kept | noise))


def reg_guard(reg, X, limit=2e6):
    """The regressed targets are scikit-learn's (trusted), but a ridge system is only solved to eps x its condition
    number, and differently for C-ordered, Fortran-ordered or integer-typed X: PCovR's default regressor regularises
    with an ABSOLUTE alpha = 1e-6, so on rank-deficient data of scale >~ 1 the regression itself is ill-posed.  Cases
    whose regression is not determined to 1e-9 are skipped."""
    if reg["kind"] not in ("default", "ridge"):
        return True
    alpha = 1e-6 if reg["kind"] == "default" else float(reg["alpha"])
    sv = np.linalg.svd(np.asarray(X, dtype=float), compute_uv=False)
    lam = sv**2
    lmin = float(lam[-1]) if len(lam) == X.shape[1] else 0.0
    return bool((float(lam[0]) + alpha) / (lmin + alpha) <= limit)


def align(A, B):
    """B with per-column sign flipped to match A."""
    s = np.sign((A * B).sum(axis=0))
    s[s == 0] = 1.0
    return B * s


class Capture:
    """Records the matrices returned by pcovr_covariance / pcovr_kernel as bound in
    skmatter.decomposition._pcovr (M2 on the functions the fit diagonalises)."""

    def __init__(self):
        self.cov = []
        self.ker = []
        self._ctx = []

    def __enter__(self):
        import skmatter.decomposition._pcovr as mod

        self.mod = mod
        oc, ok = getattr(mod, "pcovr_covariance", None), getattr(mod, "pcovr_kernel", None)
        self.ok = oc is not None and ok is not None
        if not self.ok:
            return self

        def wc(*a, **kw):
            r = oc(*a, **kw)
            self.cov.append(np.array(r[0] if isinstance(r, tuple) else r, copy=True))
            return r

        def wk(*a, **kw):
            r = ok(*a, **kw)
            self.ker.append(np.array(r, copy=True))
            return r

        self._ctx = [rt.patched(mod, "pcovr_covariance", wc), rt.patched(mod, "pcovr_kernel", wk)]
        for c in self._ctx:
            c.__enter__()
        return self

    def __exit__(self, *a):
        for c in reversed(self._ctx):
            c.__exit__(*a)


def fit_pcovr(j, label, X, Y, reg, regressor_obj=None, past=None, **kw):
    """Fit a PCovR.  regressor_obj: a (shared) regressor instance to pass instead of a fresh one.
    past: a numpy Generator -> the SAME estimator object and the SAME input buffers are first used for
    a fit on other data (then overwritten in place with the real data), as a caller re-using objects would."""
    from skmatter.decomposition import PCovR

    from . import forms

    Yfit, extra = fit_args(reg, X, Y)
    robj = regressor_obj if regressor_obj is not None else make_regressor(reg, abort=past is not None)
    route = next(j.routes) if getattr(j, "routes", None) is not None else {}
    how = route.get("how", "ctor")
    est = forms.configure(PCovR, dict(kw, regressor=robj), how)
    if how != "ctor":
        j.note("configured_not_by_constructor")
    if past is not None:
        Xbuf = np.array(past.normal(size=X.shape) * max(float(np.abs(X).std()), 1e-300), order="C")
        Xbuf -= Xbuf.mean(axis=0)
        # the earlier data are a sibling of the real ones: same shape, same column means, same column norms (two
        # standardised tables look like that) - nothing but the numbers themselves tells them apart
        cn_past, cn_real = np.linalg.norm(Xbuf, axis=0), np.linalg.norm(np.asarray(X, dtype=float), axis=0)
        if np.all(cn_past > 0) and np.all(np.isfinite(cn_real)):
            Xbuf *= cn_real / cn_past
            j.note("earlier_data_with_the_same_shape_means_and_norms")
        Ybuf = np.array(np.asarray(Yfit, dtype=float), copy=True)
        if reg["kind"] not in ("precomputed", "precomputed_W"):
            Ybuf = past.normal(size=np.shape(Yfit)) * max(float(np.abs(np.asarray(Yfit)).std()), 1e-300)
            Ybuf -= Ybuf.mean(axis=0)
        else:  # a precomputed Yhat must stay consistent with X: Yhat = X W
            Wd = extra.get("W")
            Ybuf = (Xbuf @ (Wd if Wd is not None else past.normal(size=(X.shape[1],) + np.shape(Yfit)[1:]))).reshape(np.shape(Yfit))
        j.lib(f"fit:earlier-history:{label}", est.fit, Xbuf, Ybuf, **extra)
        Xbuf[...] = X
        Ybuf[...] = np.asarray(Yfit, dtype=float)
        j.note("estimators_with_a_past")
        r_ = est.regressor
        if isinstance(r_, _AbortableMixin):
            # a failure in the history: the first fit on the real data is aborted inside the user's regressor, then repeated
            _AbortableMixin._armed[0] = True
            forms.rejected(j, "fit aborted inside the regressor", est.fit, Xbuf, Ybuf, **extra)
            _AbortableMixin._armed[0] = False
        j.lib(f"fit:{label}", est.fit, Xbuf, Ybuf, **extra)
        return est
    Xi = X
    if route.get("xint") and np.all(X == np.round(X)) and float(np.abs(X).max()) < 2**30:
        Xi = forms.as_integer(X, route["xint"])  # whole-number data handed over with an integer dtype
        j.note("integer_typed_inputs")
    Xin, Yin = forms.present(Xi, route.get("xform", "C")), forms.present(Yfit, route.get("yform", "C"))
    if route.get("xform", "C") != "C":
        j.note("non_default_containers")
    if route.get("via") == "fit_transform":
        # the other public way to the training projections
        T = np.asarray(j.lib(f"fit_transform:{label}", est.fit_transform, Xin, Yin, **extra))
        T2 = np.asarray(est.transform(X))
        j.close("fit_transform(X, y) == transform(X) of the estimator it fitted", T, T2, 1e-9 * max(float(np.abs(T2).max()), 1e-300), {"space": getattr(est, "space_", None)})
        j.note("fits_through_fit_transform")
        if route.get("clobber"):
            forms.clobber(Xin, Yin, j=j)
        return forms.carry(est, route.get("carry", "same"), j)
    j.lib(f"fit:{label}", est.fit, Xin, Yin, **extra)
    if route.get("clobber"):
        forms.clobber(Xin, Yin, j=j)
    return forms.carry(est, route.get("carry", "same"), j)  # what is used afterwards may be a copy of what was fitted


def many_rows_relation(j, X, Y, reg, a, k):
    """More than 4096 / 8192 rows (sizes an implementation might process block-wise): the table stacked r times is,
    for every formula of the model, the table multiplied by sqrt(r) - the same Gram structure, the same regression -
    so the two fits must agree (projections of new data, predictions, eigenvalues); the second one has few rows."""
    from skmatter.decomposition import PCovR

    n, m = X.shape
    if reg["kind"] in ("precomputed", "precomputed_W") or n < 2:
        return
    sv = np.linalg.svd(X, compute_uv=False)
    if len(sv) < m or sv[-1] < 1e-3 * sv[0]:
        return  # the two regressions are only equal to rounding when they are well conditioned (scikit-learn's solver)
    r = int(np.ceil(4100 / n)) + (1 if n % 7 == 0 else 0) + int(n % 3)
    Y2 = np.asarray(Y, dtype=float)
    Xb, Yb = np.tile(X, (r, 1)), np.tile(Y2, (r,) + (1,) * (Y2.ndim - 1))
    big = PCovR(mixing=a, n_components=k, space="feature", regressor=make_regressor(reg), svd_solver="full")
    ref = PCovR(mixing=a, n_components=k, space="feature", regressor=make_regressor(reg), svd_solver="full")
    j.lib("fit:stacked", big.fit, Xb, Yb)
    j.lib("fit:scaled", ref.fit, np.sqrt(r) * X, np.sqrt(r) * Y2)
    Z = X[: min(n, 7)] * 1.3 + 0.1
    Tb, Tr = np.asarray(big.transform(Z)), np.asarray(ref.transform(Z))
    sg = np.sign((Tb * Tr).sum(axis=0))
    sg[sg == 0] = 1.0
    sc = max(float(np.abs(Tr).max()), 1e-300)
    j.close(f"a table of {len(Xb)} rows (the data stacked {r} times) gives the model of the data times sqrt({r}): projections", Tb, Tr * sg, 1e-7 * sc)
    Pb, Pr = np.asarray(big.predict(Z)), np.asarray(ref.predict(Z))
    j.close("... predictions", Pb, Pr, 1e-7 * max(float(np.abs(Pr).max()), 1e-300))
    j.close("... singular values", big.singular_values_, ref.singular_values_, 1e-7 * max(float(np.abs(ref.singular_values_).max()), 1e-300))
    j.note("more_than_4096_rows")


def _routes_rule():
    from . import forms

    return forms.RULE_SUFFIX


def routes(rng, n=8):
    """Public routes to the same fitted model, drawn per fit: how the estimator is configured, which entry point fits
    it, which containers carry the numbers."""
    from . import forms

    return [{"how": gens.pick(rng, forms.CONFIGURE), "via": gens.pick(rng, ("fit", "fit", "fit_transform")), "xform": gens.pick(rng, forms.PRESENT), "yform": gens.pick(rng, forms.PRESENT), "carry": gens.pick(rng, forms.CARRY), "clobber": bool(rng.random() < 0.5), "xint": gens.pick(rng, ("int64", "int32", None))} for _ in range(n)]


def use_routes(j, case):
    import itertools

    j.routes = itertools.cycle(case["routes"]) if case.get("routes") else None


def col2(Y, n):
    return np.asarray(Y, dtype=float).reshape(n, -1)
