"""Entry point:  python -m vlib.cli <ID> <quick|thorough> | <ID> --replay <file> | --selftest

Fans the cases of one property out over worker processes, aggregates what the
monitors judged, writes evidence/<ID>.json, prints VIOLATION / KNOWN-FINDING /
INCONCLUSIVE lines.  Exit: 0 held on everything judged, 1 violation, 2 inconclusive.
"""

from __future__ import annotations

import json
import os
import subprocess
import sys
import tempfile
import time
from collections import Counter

from . import common
from .common import VERIF_DIR

NPROC = int(os.environ.get("VERIF_NPROC", "16"))
KF_PATH = os.path.join(VERIF_DIR, "known_findings.json")
OUT_DIR = os.environ.get("VERIF_OUT", VERIF_DIR)  # evidence/ and replays/ live here (mutation tool redirects it)


def known_entries(pid):
    try:
        with open(KF_PATH) as fh:
            data = common.loads(fh.read())
    except FileNotFoundError:
        return []
    return [e for e in data.get("findings", []) if e.get("property") == pid]


def write_replay(pid, name, payload):
    d = os.path.join(OUT_DIR, "replays", pid)
    os.makedirs(d, exist_ok=True)
    path = os.path.join(d, name + ".json")
    with open(path, "w") as fh:
        fh.write(common.dumps(payload, indent=None))
    return os.path.relpath(path, OUT_DIR)


def fmt_fail(f):
    return f"{f['check']}: {json.dumps(f['detail'], default=str)[:400]}"


def run_check(pid, tier):
    from . import worker

    t0 = time.time()
    seed = int(os.environ.get("VERIF_SEED", "0"))
    prop = worker.load_prop(pid)
    where = common.check_monitored_tree()
    ncases = int(os.environ.get("VERIF_CASES", prop.CASES[tier]))
    nshards = max(1, min(NPROC, ncases))
    watchdog = float(os.environ.get("VERIF_WATCHDOG", 900 if tier == "quick" else 6 * 3600))

    env = dict(os.environ)
    env["PYTHONHASHSEED"] = "0"
    env["PYTHONPATH"] = VERIF_DIR + os.pathsep + env.get("PYTHONPATH", "")
    tmpdir = tempfile.mkdtemp(prefix=f"verif_{pid}_", dir=os.environ.get("VERIF_TMP", "/var/tmp"))
    procs = []
    for s in range(nshards):
        out = os.path.join(tmpdir, f"shard{s}.jsonl")
        log = open(os.path.join(tmpdir, f"shard{s}.log"), "w")
        p = subprocess.Popen(
            [sys.executable, "-m", "vlib.worker", pid, tier, str(seed), str(s), str(nshards), str(ncases), out],
            cwd=VERIF_DIR,
            env=env,
            stdout=log,
            stderr=subprocess.STDOUT,
        )
        procs.append((p, out, log))

    dead = []
    deadline = t0 + watchdog
    for s, (p, out, log) in enumerate(procs):
        try:
            rc = p.wait(timeout=max(1.0, deadline - time.time()))
            if rc != 0:
                dead.append((s, f"exit {rc}"))
        except subprocess.TimeoutExpired:
            p.kill()
            p.wait()
            dead.append((s, "watchdog"))
        log.close()

    recs = []
    reach = {}
    for s, (p, out, log) in enumerate(procs):
        if os.path.exists(out):
            with open(out) as fh:
                for line in fh:
                    line = line.strip()
                    if line:
                        try:
                            r_ = common.loads(line)
                        except Exception:
                            continue
                        if "reach" in r_ and "index" not in r_:
                            for k_, v_ in r_["reach"].items():
                                reach[k_] = max(reach.get(k_, 0), v_)
                        else:
                            recs.append(r_)
    shard_logs = {}
    for s, why in dead:
        try:
            with open(os.path.join(tmpdir, f"shard{s}.log")) as fh:
                shard_logs[s] = fh.read()[-1500:]
        except OSError:
            shard_logs[s] = ""
    import shutil

    shutil.rmtree(tmpdir, ignore_errors=True)

    # ---------------------------------------------------------------- aggregate
    recs.sort(key=lambda r: (0, r["index"]) if isinstance(r["index"], int) else (1, str(r["index"])))
    counters, checks, skips, tags = Counter(), Counter(), Counter(), Counter()
    judged_cases = judgments = 0
    nontrivial_sigs = set()
    violations, harness_errors = [], []
    known_hits = Counter()
    known_example = {}
    samples = []
    for r in recs:
        if r.get("harness_error"):
            harness_errors.append(r)
        for k, v in (r.get("counters") or {}).items():
            counters[k] += v
        for k, v in (r.get("checks") or {}).items():
            checks[k] += v
        for k, v in (r.get("skips") or {}).items():
            skips[k] += v
        for t in r.get("tags") or []:
            tags[t] += 1
        if r.get("judged", 0) > 0:
            judged_cases += 1
            judgments += r["judged"]
            if r.get("nontrivial"):
                nontrivial_sigs.add(r.get("sig"))
        if r.get("violated"):
            violations.append(r)
        for k in r.get("known") or []:
            known_hits[k] += 1
            known_example.setdefault(k, r)
        if r.get("sample") is not None and len(samples) < 4 and r.get("judged", 0) > 0:
            samples.append({"index": r["index"], **(r["sample"] if isinstance(r["sample"], dict) else {"sample": r["sample"]})})

    # ---------------------------------------------------------------- optional extra stage
    # (thorough tier, or VERIF_SUITE=1): the repository's own tests under the property's contracts
    extra_ev = None
    extra_inconclusive = []
    extra_fn = getattr(prop, "extra_run", None)
    if extra_fn and (tier in getattr(prop, "EXTRA_TIERS", ("thorough",)) or os.environ.get("VERIF_SUITE")) and not os.environ.get("VERIF_CASES"):
        ex = extra_fn(tier)
        extra_ev = ex.get("evidence")
        extra_inconclusive = list(ex.get("inconclusive", []))
        for k, v in ex.get("counters", {}).items():
            counters[k] += v
        for n_, f in enumerate(ex.get("failures", [])):
            recs.append({"index": f"suite-{n_}", "judged": 1, "failures": [{"check": f["check"], "detail": f.get("detail"), "known": f.get("known")}], "violated": not f.get("known"), "known": [f["known"]] if f.get("known") else [], "primary": f.get("where"), "tags": ["suite"], "case": {"suite_test": f["test"], "contracts": ex.get("contracts")}, "suite": True})
        for r in recs:
            if r.get("suite"):
                if r["violated"]:
                    violations.append(r)
                for k in r["known"]:
                    known_hits[k] += 1

    # ---------------------------------------------------------------- known findings
    lines = []
    listed = {e["key"]: e for e in known_entries(pid) if e.get("status") == "known"}
    repro_results = {}
    for key, e in listed.items():
        case = e.get("reproducer", {}).get("case")
        if case is None:
            continue
        rec = worker.run_case(prop, case)
        repro_results[key] = rec
        got = set(rec["known"])
        if rec["harness_error"]:
            harness_errors.append({"index": f"reproducer:{key}", "harness_error": rec["harness_error"]})
        elif rec["violated"]:
            rec["index"] = f"reproducer-{key}"
            rec["case"] = case
            violations.append(rec)
        elif key in got:
            known_hits[key] += 0  # make the key present
        else:
            lines.append(f"NOTE property={pid} known finding {key} no longer reproduces on its listed input")

    # failures classified to a key that is not listed as known are violations
    for r in recs:
        unlisted = [k for k in (r.get("known") or []) if k not in listed]
        if unlisted and not r.get("violated"):
            r["violated"] = True
            r["unlisted_known"] = unlisted
            violations.append(r)

    for key, e in listed.items():
        n = known_hits.get(key, 0)
        reproduced = key in repro_results and key in set(repro_results[key]["known"])
        if reproduced or n > 0:
            lines.append(
                f"KNOWN-FINDING: property={pid} {key} {e.get('what', '')} "
                f"(reproducer={'fails as listed' if reproduced else 'n/a'}, generated cases matching={n})"
            )

    # ---------------------------------------------------------------- verdict
    replay_paths = []
    for r in violations[:8]:
        payload = {
            "property": pid,
            "tier": tier,
            "seed": seed,
            "index": r["index"],
            "failures": r["failures"],
            "case": r.get("case"),
        }
        replay_paths.append(write_replay(pid, f"{tier}-s{seed}-{r['index']}", payload))

    floor = prop.FLOOR[tier] if not os.environ.get("VERIF_CASES") else 1
    inconclusive = []
    if dead:
        inconclusive.append("worker shards died or hit the watchdog: " + ", ".join(f"{s}:{w}" for s, w in dead))
    if harness_errors:
        inconclusive.append(f"{len(harness_errors)} cases hit a harness error (oracle/monitor bug or wrap point missing)")
    if judged_cases < floor:
        inconclusive.append(f"deciding monitor judged {judged_cases} cases < floor {floor}")
    for k, need in (getattr(prop, "FLOOR_COUNTERS", {}).get(tier, {}) if not os.environ.get("VERIF_CASES") else {}).items():
        have = counters.get(k, 0) + checks.get(k, 0)
        if have < need:
            inconclusive.append(f"monitor event '{k}' observed {have} times < floor {need}")
    inconclusive.extend(extra_inconclusive)
    nskipped = sum(1 for r in recs if r.get("judged", 0) == 0)
    if recs and nskipped > 0.5 * len(recs):
        inconclusive.append(f"{nskipped}/{len(recs)} cases were skipped without any judgment")

    wall = time.time() - t0
    cov = {
        "evaluations": len(recs),
        "judged_cases": judged_cases,
        "judgments": judgments,
        "distinct_nontrivial": len(nontrivial_sigs),
        "rule": prop.RULE,
        "samples": samples or [{"note": "no sample recorded"}],
        "judgments_per_oracle": dict(sorted(checks.items())),
        "monitor_events": dict(sorted(counters.items())),
        "workload_classes": dict(sorted(tags.items())),
        "skips": dict(sorted(skips.items())),
        "known_finding_hits": {k: known_hits.get(k, 0) for k in listed},
        "floor_cases": floor,
        "floor_events": getattr(prop, "FLOOR_COUNTERS", {}).get(tier, {}),
        "reach_skmatter_functions_lines_executed": dict(sorted(reach.items())),
        "monitored_tree": where,
        "workers": nshards,
        "verdict": "violated" if violations else ("inconclusive" if inconclusive else "held-on-observed"),
        "inconclusive_reasons": inconclusive,
        "harness_errors": [str(h.get("harness_error"))[-600:] for h in harness_errors[:3]],
        "dead_shard_logs": shard_logs,
        "violation_examples": [
            {"index": r["index"], "failures": [f for f in r["failures"] if not f["known"]][:3]} for r in violations[:5]
        ],
        "exhaustive": False,
    }
    if extra_ev is not None:
        cov["repository_suite_under_contracts"] = extra_ev
    extra = getattr(prop, "evidence_extra", None)
    if extra:
        try:
            cov.update(extra(recs, tier))
        except Exception as e:  # evidence decoration must never decide anything
            cov["evidence_extra_error"] = repr(e)
    ev = {
        "property_id": pid,
        "tier": tier,
        "seed": seed,
        "level": "exploration",
        "coverage": cov,
        "assumptions": list(prop.ASSUMPTIONS),
        "wall_s": round(wall, 2),
        "violations": len(violations),
    }
    os.makedirs(os.path.join(OUT_DIR, "evidence"), exist_ok=True)
    with open(os.path.join(OUT_DIR, "evidence", f"{pid}.json"), "w") as fh:
        json.dump(ev, fh, indent=1, default=str)
        fh.write("\n")

    print(
        f"[{pid} {tier} seed={seed}] cases={len(recs)} judged_cases={judged_cases} judgments={judgments} "
        f"distinct_nontrivial={len(nontrivial_sigs)} skipped_cases={nskipped} wall={wall:.1f}s tree={where}"
    )
    top = ", ".join(f"{k}={v}" for k, v in sorted(counters.items())[:14])
    if top:
        print(f"[{pid}] monitor events: {top}")
    for ln in lines:
        print(ln)
    if violations:
        summ = Counter()
        for r in violations:
            for f in r.get("failures", []):
                if not f["known"]:
                    summ[(f["check"], r.get("primary") or "?")] += 1
        for (chk, tg), n in summ.most_common(int(os.environ.get("VERIF_SUMMARY", "12"))):
            print(f"    summary: {n:5d} x [{tg}] {chk}")
        for r, path in zip(violations, replay_paths):
            bad = [f for f in r["failures"] if not f["known"]] or r["failures"]
            print(f"VIOLATION property={pid} replay={path}")
            for f in bad[:2]:
                print("    " + fmt_fail(f))
        if len(violations) > len(replay_paths):
            print(f"    ... {len(violations)} violating cases in total")
        return 1
    if inconclusive:
        for why in inconclusive:
            print(f"INCONCLUSIVE property={pid} reason={why}")
        for h in harness_errors[:2]:
            print(str(h.get("harness_error"))[-1200:])
        for s, txt in shard_logs.items():
            print(f"--- shard {s} log tail:\n{txt}")
        return 2
    return 0


def run_replay(pid, path):
    from . import worker

    prop = worker.load_prop(pid)
    common.check_monitored_tree()
    with open(path if os.path.isabs(path) else os.path.join(OUT_DIR, path)) as fh:
        payload = common.loads(fh.read())
    case = payload["case"] if "case" in payload else payload
    if isinstance(case, dict) and "suite_test" in case:
        from . import suite

        r = suite.replay_test(case["suite_test"], case.get("contracts") or ["selectors", "purity"])
        listed = {e["key"] for e in known_entries(pid) if e.get("status") == "known"}
        bad = [f for f in r["failures"] if not f.get("known") or f["known"] not in listed]
        print(f"[{pid} replay suite test {case['suite_test']}] contract failures={len(r['failures'])} {r['evidence'].get('pytest_tail', '')}")
        for f in r["failures"]:
            print(("  known[%s] " % f["known"] if f.get("known") else "  FAIL ") + fmt_fail(f))
        if bad:
            print(f"VIOLATION property={pid} replay={path}")
            return 1
        return 2 if r["inconclusive"] else 0
    rec = worker.run_case(prop, case)
    print(f"[{pid} replay] judged={rec['judged']} failures={len(rec['failures'])} skips={rec['skips']}")
    for f in rec["failures"]:
        print(("  known[%s] " % f["known"] if f["known"] else "  FAIL ") + fmt_fail(f))
    if rec["harness_error"]:
        print(rec["harness_error"])
        print(f"INCONCLUSIVE property={pid} reason=harness error during replay")
        return 2
    listed = {e["key"] for e in known_entries(pid) if e.get("status") == "known"}
    bad = [f for f in rec["failures"] if not f["known"] or f["known"] not in listed]
    if bad:
        print(f"VIOLATION property={pid} replay={path}")
        return 1
    return 0


def selftest():
    where = common.check_monitored_tree()
    from . import rt  # noqa: F401
    import numpy as np

    # monitors self-test: write protection faults, FP trap attributes, json round trip
    a = np.arange(4.0)
    a.setflags(write=False)
    try:
        a *= 2
        raise SystemExit("selftest: write protection did not fault")
    except ValueError as e:
        assert rt.is_readonly_fault(e)
    with rt.FPTrap() as t:
        np.log(np.zeros(1))
    assert t.events, "FP trap saw nothing"
    x = {"a": np.eye(2), "b": [1, 2.5, "s"]}
    y = common.loads(common.dumps(x))
    assert np.array_equal(y["a"], x["a"]) and y["b"] == x["b"]
    import importlib
    import glob

    n = 0
    for f in sorted(glob.glob(os.path.join(VERIF_DIR, "vlib", "props", "c*.py"))):
        m = importlib.import_module("vlib.props." + os.path.basename(f)[:-3])
        for attr in ("CASES", "FLOOR", "RULE", "ASSUMPTIONS", "gen", "run"):
            assert hasattr(m, attr), (f, attr)
        n += 1
    print(f"selftest ok: skmatter from {where}; {n} property modules import")
    return 0


def main(argv):
    if argv and argv[0] == "--selftest":
        return selftest()
    if argv and not os.path.exists(os.path.join(VERIF_DIR, "vlib", "props", argv[0].lower() + ".py")):
        print(f"no check for {argv[0]}")
        return 64
    if len(argv) >= 3 and argv[1] == "--replay":
        return run_replay(argv[0], argv[2])
    if len(argv) == 2 and argv[1] in ("quick", "thorough"):
        return run_check(argv[0], argv[1])
    print(__doc__)
    return 64


if __name__ == "__main__":
    sys.exit(main(sys.argv[1:]))
