"""Shared plumbing of the runtime-monitoring framework.

* environment (which source tree is monitored, single-threaded BLAS, no tqdm bars)
* deterministic per-case random streams
* JSON (de)serialisation of cases that contain numpy arrays
* the ``Judge``: a per-case verdict accumulator that every monitor reports into
"""

from __future__ import annotations

import base64
import hashlib
import io
import json
import os
import sys
import traceback
from collections import Counter

VERIF_DIR = os.path.dirname(os.path.dirname(os.path.abspath(__file__)))
REPO = os.environ.get("VERIF_REPO", "/repo")


def setup_env():
    """Must run before numpy / skmatter are imported."""
    for k in ("OMP_NUM_THREADS", "OPENBLAS_NUM_THREADS", "MKL_NUM_THREADS"):
        os.environ.setdefault(k, "1")
    os.environ.setdefault("TQDM_DISABLE", "1")
    os.environ.setdefault("PYTHONDONTWRITEBYTECODE", "1")
    sys.dont_write_bytecode = True
    src = os.path.join(REPO, "src")
    if src not in sys.path:
        sys.path.insert(0, src)


setup_env()

import numpy as np  # noqa: E402


def check_monitored_tree():
    """The monitors must watch the working tree of REPO, nothing else."""
    import skmatter

    where = os.path.realpath(os.path.dirname(skmatter.__file__))
    want = os.path.realpath(os.path.join(REPO, "src", "skmatter"))
    if where != want:
        raise RuntimeError(f"skmatter imported from {where}, expected {want}")
    return where


# --------------------------------------------------------------------------- seeds


def case_seed(prop: str, tier: str, seed: int, index: int) -> int:
    h = hashlib.sha256(f"{prop}|{tier}|{seed}|{index}".encode()).digest()
    return int.from_bytes(h[:8], "little")


def case_rng(prop: str, tier: str, seed: int, index: int) -> np.random.Generator:
    return np.random.Generator(np.random.PCG64(case_seed(prop, tier, seed, index)))


# --------------------------------------------------------------------------- json


def _enc(o):
    if isinstance(o, np.ndarray):
        buf = io.BytesIO()
        np.save(buf, o, allow_pickle=False)
        return {"__nd__": base64.b64encode(buf.getvalue()).decode("ascii")}
    if isinstance(o, (np.integer,)):
        return int(o)
    if isinstance(o, (np.floating,)):
        return float(o)
    if isinstance(o, (np.bool_,)):
        return bool(o)
    if isinstance(o, (set, frozenset)):
        return sorted(o)
    if isinstance(o, tuple):
        return list(o)
    raise TypeError(f"not serialisable: {type(o)}")


def _dec(d):
    if "__nd__" in d and len(d) == 1:
        return np.load(io.BytesIO(base64.b64decode(d["__nd__"])), allow_pickle=False)
    return d


def dumps(obj, **kw) -> str:
    return json.dumps(obj, default=_enc, **kw)


def loads(s: str):
    return json.loads(s, object_hook=_dec)


def brief(o, depth=0):
    """Human-readable, small rendering of a case for evidence samples."""
    if isinstance(o, np.ndarray):
        if o.size <= 12:
            return o.tolist()
        return f"ndarray{tuple(o.shape)} {o.dtype} sha={array_hash(o)[:10]}"
    if isinstance(o, dict):
        return {str(k): brief(v, depth + 1) for k, v in list(o.items())[:40]}
    if isinstance(o, (list, tuple)):
        if len(o) > 16:
            return [brief(v, depth + 1) for v in o[:16]] + [f"... {len(o)} items"]
        return [brief(v, depth + 1) for v in o]
    if isinstance(o, (np.integer,)):
        return int(o)
    if isinstance(o, (np.floating, float)):
        f = float(o)
        return f if np.isfinite(f) else repr(f)
    if isinstance(o, (np.bool_,)):
        return bool(o)
    if isinstance(o, (str, int, bool)) or o is None:
        return o
    return repr(o)[:120]


def array_hash(a) -> str:
    a = np.ascontiguousarray(a)
    h = hashlib.sha1()
    h.update(str(a.dtype).encode())
    h.update(str(a.shape).encode())
    h.update(a.tobytes())
    return h.hexdigest()


def obj_hash(o) -> str:
    return hashlib.sha1(dumps(o, sort_keys=True).encode()).hexdigest()


# --------------------------------------------------------------------------- judge


class Skip(Exception):
    """Raised by a property module when an explicit precondition of the property is
    not met by the generated case (ill-conditioned, tie, exhausted, proviso...)."""

    def __init__(self, reason):
        super().__init__(reason)
        self.reason = reason


class Judge:
    """Accumulates what the monitors observed and decided for one case.

    ``ok(name, cond, ...)`` is one oracle judgment.  A failed judgment is a
    *failure*; a failure whose ``known`` key is set was recognised by a known-finding
    classifier (mechanism match), everything else is a violation.
    """

    def __init__(self):
        self.judged = 0
        self.failures = []  # dicts: check, detail, known
        self.counters = Counter()  # events observed by the monitors
        self.checks = Counter()  # judgments per oracle name
        self.skips = Counter()
        self.tags = set()  # workload classes
        self.nontrivial = False
        self.sample = None
        self.harness_error = None
        self.primary = None  # main workload class, for violation summaries

    # -- judgments
    def ok(self, name, cond, detail=None, known=None):
        self.judged += 1
        self.checks[name] += 1
        if not bool(cond):
            self._fail(name, detail, known)
            return False
        return True

    def fail(self, name, detail=None, known=None):
        self.judged += 1
        self.checks[name] += 1
        self._fail(name, detail, known)

    def _fail(self, name, detail, known):
        if callable(detail):
            detail = detail()
        if len(self.failures) < 20:
            self.failures.append(
                {"check": name, "detail": brief(detail), "known": known}
            )
        else:
            self.counters["failures_truncated"] += 1
            if known is None and all(f["known"] for f in self.failures):
                self.failures[-1] = {
                    "check": name,
                    "detail": brief(detail),
                    "known": None,
                }

    def close(self, name, a, b, tol, detail=None, known=None):
        """|a-b| <= tol elementwise (shape must agree)."""
        a = np.asarray(a, dtype=float)
        b = np.asarray(b, dtype=float)
        if a.shape != b.shape:
            return self.ok(name, False, {"shape_a": a.shape, "shape_b": b.shape, "info": detail}, known)
        if a.size == 0:
            return self.ok(name, True)
        with np.errstate(invalid="ignore"):
            d = np.abs(a - b)
        bad = ~(d <= tol)
        same_inf = np.isinf(a) & np.isinf(b) & (np.sign(a) == np.sign(b))
        bad &= ~same_inf
        if bad.any():
            i = int(np.argmax(np.where(bad, np.nan_to_num(d, nan=np.inf), -1)))
            return self.ok(
                name,
                False,
                {
                    "max_abs_diff": float(np.nan_to_num(d, nan=np.inf).max()),
                    "tol": float(np.max(tol)),
                    "at": i,
                    "a": float(a.flat[i]),
                    "b": float(b.flat[i]),
                    "info": detail,
                },
                known,
            )
        return self.ok(name, True)

    # -- bookkeeping
    def skip(self, reason):
        self.skips[reason] += 1

    def note(self, key, n=1):
        self.counters[key] += int(n)

    def tag(self, *tags):
        if self.primary is None and tags:
            self.primary = str(tags[0])
        self.tags.update(str(t) for t in tags)

    def lib(self, name, fn, *a, allowed=(), known=None, **kw):
        """Run a library call. An exception type listed in ``allowed`` is a
        documented rejection and re-raised as ``Skip``; any other exception escaping
        the library is a failed judgment (the property's object was never produced)."""
        try:
            return fn(*a, **kw)
        except Skip:
            raise
        except allowed as e:  # documented rejection
            raise Skip(f"rejected:{type(e).__name__}")
        except Exception as e:
            tb = traceback.extract_tb(e.__traceback__)
            where = [f"{os.path.basename(f.filename)}:{f.lineno}:{f.name}" for f in tb][-4:]
            k = known(e, where) if callable(known) else known
            self.fail(
                f"exception:{name}",
                {"type": type(e).__name__, "msg": str(e)[:300], "where": where},
                k,
            )
            raise Skip(f"exception:{type(e).__name__}")

    def record(self):
        viol = [f for f in self.failures if not f["known"]]
        return {
            "judged": self.judged,
            "failures": self.failures,
            "violated": bool(viol),
            "known": sorted({f["known"] for f in self.failures if f["known"]}),
            "counters": dict(self.counters),
            "checks": dict(self.checks),
            "skips": dict(self.skips),
            "tags": sorted(self.tags),
            "nontrivial": bool(self.nontrivial),
            "sample": self.sample,
            "harness_error": self.harness_error,
            "primary": self.primary,
        }
