"""pytest plugin: runs the repository's OWN test-suite with the runtime contracts switched on.

    VERIF_SUITE_OUT=<json> VERIF_SUITE_CONTRACTS=selectors,purity \
        pytest -p vlib.suite_monitor <repo>/tests

* selectors : the C01 post-fit state contract (with the GreedyTrace attached for the duration of
              the fit) at the exit of every successful GreedySelector.fit the tests perform;
* purity    : byte snapshots of every array / list argument around every public constructor,
              fit / transform / predict / score ... method and metric function the tests call.

Contracts record, they never raise into the test; the instrumentation is removed from the
estimator instance before fit returns (so pickling / clone / __dict__ checks of the suite see
nothing but one private list).  Nothing here is installed in the repository.
"""

from __future__ import annotations

import json
import os
import traceback
from collections import Counter

from . import common  # noqa: F401
import numpy as np

from . import rt
from .common import Judge

OUT = os.environ.get("VERIF_SUITE_OUT")
WHICH = set(os.environ.get("VERIF_SUITE_CONTRACTS", "selectors,purity").split(","))
STATE = {"evals": Counter(), "failures": [], "errors": [], "current": "<collection>", "tests": 0, "judgments": 0}


def _record(j, where):
    STATE["judgments"] += j.judged
    for f in j.failures:
        if len(STATE["failures"]) < 200:
            STATE["failures"].append({"test": STATE["current"], "where": where, **f})


# --------------------------------------------------------------------------- selectors


def _install_selectors():
    from skmatter._selection import GreedySelector

    from .props import c01

    orig = GreedySelector.fit

    def fit(self, X, y=None, warm_start=False):
        seq = self.__dict__.get("_verif_seq") if warm_start else None
        tr = rt.GreedyTrace(self, tables=False)
        try:
            res = orig(self, X, y, warm_start=warm_start)
        finally:
            tr.detach()
        try:
            Xa = np.asarray(X, dtype=float)
            ya = None if y is None else np.asarray(y, dtype=float)
            if Xa.ndim == 2 and (ya is None or ya.ndim == 1 or (ya.ndim == 2 and ya.shape[1] == 1)):
                if seq is None:
                    seq = []
                j = Judge()
                c01.post_fit_contract(j, self, c01.spec_of(self), Xa, ya, seq, tr.events, self.n_to_select)
                self.__dict__["_verif_seq"] = [int(v) for v in seq]
                STATE["evals"]["selector_post_fit_contract"] += 1
                STATE["evals"][f"selector:{type(self).__name__}"] += 1
                if warm_start:
                    STATE["evals"]["selector_warm_fits"] += 1
                if tr.threshold_stops():
                    STATE["evals"]["selector_threshold_stops"] += 1
                _record(j, f"{type(self).__name__}.fit")
        except Exception:
            STATE["errors"].append({"test": STATE["current"], "error": traceback.format_exc()[-800:]})
        return res

    fit.__wrapped__ = orig
    GreedySelector.fit = fit


# --------------------------------------------------------------------------- purity

METHODS = ("fit", "transform", "predict", "score", "inverse_transform", "fit_transform", "score_samples", "score_feature_matrix")


def _pure(name, orig, is_method, opt_in=None):
    def wrapper(*a, **kw):
        if opt_in is not None and opt_in(a, kw):
            return orig(*a, **kw)
        args = (a[1:] if is_method else a, kw)
        before = rt.snapshot(args)
        res = orig(*a, **kw)
        try:
            changed = rt.diff_snapshot(before, args)
            STATE["evals"]["purity_call"] += 1
            STATE["evals"][f"purity:{name}"] += 1
            STATE["evals"]["purity_arrays_snapshotted"] += len(before)
            if changed:
                j = Judge()
                j.fail("caller arrays byte-identical after the call", {"call": name, "modified": changed})
                _record(j, name)
            else:
                STATE["judgments"] += 1
        except Exception:
            STATE["errors"].append({"test": STATE["current"], "error": traceback.format_exc()[-800:]})
        return res

    wrapper.__name__ = getattr(orig, "__name__", name)
    wrapper.__doc__ = getattr(orig, "__doc__", None)
    wrapper.__wrapped__ = orig
    return wrapper


def _install_purity():
    import sys

    import skmatter.clustering as cl
    import skmatter.decomposition as dc
    import skmatter.linear_model as lm
    import skmatter.metrics as mt
    import skmatter.neighbors as nb
    import skmatter.preprocessing as pp
    import skmatter.sample_selection as ss
    import skmatter.utils as ut
    from skmatter._selection import GreedySelector

    classes = [GreedySelector, ss.DirectionalConvexHull, dc.PCovR, dc.KernelPCovR, pp.StandardFlexibleScaler, pp.KernelNormalizer, pp.SparseKernelCenterer, lm.Ridge2FoldCV, lm.OrthogonalRegression, nb.SparseKDE, cl.QuickShift]
    copy_false = lambda a, kw: kw.get("copy") is False  # noqa: E731  explicit opt-in to in-place work
    for cls in classes:
        names = list(METHODS) + (["__init__"] if cls in (nb.SparseKDE, cl.QuickShift) else [])
        for m in names:
            if m in cls.__dict__:
                setattr(cls, m, _pure(f"{cls.__name__}.{m}", cls.__dict__[m], True, copy_false))
    # the selectors' fit is defined on GreedySelector only; subclasses inherit the wrapped method

    def rebind(func, name, opt_in=None):
        w = _pure(name, func, False, opt_in)
        for mname, mod in list(sys.modules.items()):
            if mod is None or not mname.startswith("skmatter"):
                continue
            for k, v in list(vars(mod).items()):
                if v is func:
                    setattr(mod, k, w)

    for fn in ("pointwise_global_reconstruction_error", "global_reconstruction_error", "pointwise_global_reconstruction_distortion", "global_reconstruction_distortion", "pointwise_local_reconstruction_error", "local_reconstruction_error", "local_prediction_rigidity", "componentwise_prediction_rigidity", "periodic_pairwise_euclidean_distances", "pairwise_mahalanobis_distances"):
        rebind(getattr(mt, fn), f"metrics.{fn}")
    # orthogonalizers: the statement covers copy=True only (X_orthogonalizer works in place by default)
    rebind(ut.X_orthogonalizer, "utils.X_orthogonalizer", lambda a, kw: kw.get("copy") is not True)
    rebind(ut.Y_feature_orthogonalizer, "utils.Y_feature_orthogonalizer", copy_false)
    rebind(ut.Y_sample_orthogonalizer, "utils.Y_sample_orthogonalizer", copy_false)
    rebind(ut.pcovr_covariance, "utils.pcovr_covariance")
    rebind(ut.pcovr_kernel, "utils.pcovr_kernel")


# --------------------------------------------------------------------------- pytest hooks


def pytest_configure(config):
    common.check_monitored_tree()
    if "purity" in WHICH:
        _install_purity()
    if "selectors" in WHICH:
        _install_selectors()  # outermost: the contract sees the fit as the test called it


def pytest_runtest_setup(item):
    STATE["current"] = item.nodeid
    STATE["tests"] += 1


def pytest_sessionfinish(session, exitstatus):
    if OUT:
        with open(OUT, "w") as fh:
            json.dump({"tests": STATE["tests"], "judgments": STATE["judgments"], "evaluations": dict(STATE["evals"]), "failures": STATE["failures"], "errors": STATE["errors"][:20], "exitstatus": int(exitstatus)}, fh, indent=1, default=str)
