"""Public ways of doing the same thing.

A property that holds "for the estimator configured with P, fitted on X" has to hold whichever public route leads to
that state.  The helpers here produce those routes; every check draws them as part of its workload and counts them.

configure(factory, params, how)   estimator with hyper-parameters `params`:
        ctor        factory(**params)
        set_params  factory(**other).set_params(**params)       (BaseEstimator subclasses)
        setattr     factory(**other) followed by attribute assignment of every parameter
        clone       sklearn.base.clone(factory(**params))
   `other` = the constructor defaults (or the `decoy` parameters given), so that a value captured at construction
   time shows.
carry(est, how)                   same | deepcopy | pickle : the object that the next call is made on
present(A, how)                   C | F | strided | readonly | list | negstride | bigendian : the same numbers in another container
numpy_scalars(params)             the same parameter values as np.bool_ / np.int64 / np.float64
rejected(j, label, fn, ...)       a call the library legitimately refuses, made on the object before the judged calls
clobber(*arrays)                  the caller re-uses its own buffers after the call: every writable array is overwritten
                                  in place (what the model needs later it must have kept for itself)
"""

from __future__ import annotations

import copy
import pickle

import numpy as np

RULE_SUFFIX = (
    "Routes (drawn per case / per fit, each with a floor on its counter where the module lists one): the estimator is "
    "configured by constructor | set_params | attribute assignment | clone; the numbers arrive in C | Fortran | strided | "
    "read-only | list | negative-stride | non-native-byte-order containers (integer-typed where whole-number data are drawn); fitted through fit or fit_transform "
    "where both exist; used afterwards as the same object | its deep copy | its unpickled copy; the caller's buffers may be "
    "overwritten after fit. Every check: one case in four runs with scikit-learn's global working_memory lowered to 1 KiB; "
    "estimators with a past were, every other time, fitted on a sibling of the judged data (same shape, column means and norms); "
    "the selectors' fits receive, for every other data set, the very array objects of the estimator's previous fit refilled."
)
CONFIGURE = ("ctor", "ctor", "set_params", "setattr", "clone")
CARRY = ("same", "same", "deepcopy", "pickle")
PRESENT = ("C", "C", "F", "strided", "readonly", "list", "negstride", "bigendian")


def configure(factory, params, how="ctor", decoy=None, j=None):
    params = dict(params)
    decoy = dict(decoy or {})
    if how == "ctor":
        est = factory(**params)
    elif how == "clone":
        from sklearn.base import clone

        est = clone(factory(**params))
    else:
        est = factory(**decoy)
        if how == "set_params" and hasattr(est, "set_params"):
            known = set(est.get_params(deep=False)) if hasattr(est, "get_params") else set(params)
            est.set_params(**{k: v for k, v in params.items() if k in known})
            for k, v in params.items():  # parameters the class hides from get_params (e.g. **kwargs constructors)
                if k not in known:
                    setattr(est, k, v)
        else:
            for k, v in params.items():
                setattr(est, k, v)
    if j is not None:
        j.note(f"configured_by:{how}")
    return est


def carry(est, how="same", j=None):
    if how == "deepcopy":
        est = copy.deepcopy(est)
    elif how == "pickle":
        est = pickle.loads(pickle.dumps(est))
    if j is not None and how != "same":
        j.note(f"carried_by:{how}")
    return est


def present(A, how="C"):
    if A is None:
        return None
    A = np.asarray(A)
    if how == "C":
        return np.ascontiguousarray(A).copy()
    if how == "F":
        return np.asfortranarray(A).copy(order="F")
    if how == "strided":
        if A.ndim == 1:
            big = np.zeros(2 * len(A), dtype=A.dtype)
            big[::2] = A
            return big[::2]
        big = np.zeros((2 * A.shape[0], 2 * A.shape[1]), dtype=A.dtype)
        big[::2, ::2] = A
        return big[::2, ::2]
    if how == "readonly":
        B = np.ascontiguousarray(A).copy()
        B.setflags(write=False)
        return B
    if how == "list":
        return A.tolist()
    if how == "negstride":  # the same numbers seen through negative strides (what X[::-1] of a reversed copy is)
        B = np.ascontiguousarray(A)[tuple(slice(None, None, -1) for _ in range(A.ndim))].copy()
        return B[tuple(slice(None, None, -1) for _ in range(A.ndim))]
    if how == "bigendian":  # non-native byte order (data read from a file written elsewhere)
        return np.ascontiguousarray(A).astype(A.dtype.newbyteorder(">")) if A.dtype.kind in "fiu" else np.ascontiguousarray(A).copy()
    raise ValueError(how)


def clobber(*arrays, j=None):
    n = 0
    for A in arrays:
        if isinstance(A, np.ndarray) and A.flags.writeable and A.dtype.kind in "fiu" and A.size:
            A[...] = 77 if A.dtype.kind in "iu" else 7.7e3
            n += 1
    if j is not None and n:
        j.note("caller_buffers_overwritten_after_fit")
    return n


def as_integer(A, dt):
    """Whole-number data cast to an integer dtype.  A narrow dtype (int32 ...) is only used when sums of products of the
    entries stay inside it: numpy multiplies integer arrays in their own dtype, and the overflow of such a product is
    the caller's choice of dtype, not a property of the library (DESIGN 11.5)."""
    A = np.asarray(A)
    dt = np.dtype(dt)
    if dt.kind in "iu" and dt.itemsize < 8:
        top = float(np.abs(A).max(initial=0.0))
        if top * top * max(A.shape) >= 2.0 ** (8 * dt.itemsize - 2):
            dt = np.dtype("int64")
    return A.astype(dt)


def numpy_scalars(params):
    """The same hyper-parameter values as NumPy scalars (what iterating over np.arange / a boolean array / a parameter
    grid stored in an array hands out): np.bool_ for bool, np.int64 for int, np.float64 for float."""
    out = {}
    for k, v in params.items():
        if isinstance(v, bool):
            out[k] = np.bool_(v)
        elif isinstance(v, int):
            out[k] = np.int64(v)
        elif isinstance(v, float):
            out[k] = np.float64(v)
        else:
            out[k] = v
    return out


def rejected(j, label, fn, *a, **kw):
    """A call that the library legitimately refuses (wrong shape, a request it cannot serve ...).  It must raise - and
    leave the object as it was, which is what the judgments made AFTERWARDS on the same object decide."""
    try:
        fn(*a, **kw)
    except Exception as e:  # noqa: BLE001
        if j is not None:
            j.note("rejected_calls_in_the_history")
        return type(e).__name__
    if j is not None:
        j.note("calls_expected_to_be_rejected_that_were_accepted")
    return None


def sibling(X, Z):
    """A table that nothing but its numbers tells apart from X: same shape, same column means, same column norms
    about the mean (what two standardised tables look like) - hence the same sum and the same sum of squares.
    Z is a standard-normal table of X's shape."""
    X = np.asarray(X, dtype=float)
    Z = np.array(Z, dtype=float, copy=True)
    if X.ndim != 2 or X.shape[0] < 2:
        return Z * max(float(np.abs(X).max(initial=0.0)), 1e-300)
    mu = X.mean(axis=0)
    Z -= Z.mean(axis=0)
    cz, cx = np.linalg.norm(Z, axis=0), np.linalg.norm(X - mu, axis=0)
    Z *= np.where(cz > 0, cx / np.where(cz > 0, cz, 1.0), 0.0)
    return Z + mu


def sibling_or(X, Z, scale):
    """Every other time (decided by the numbers drawn, not by another draw) the earlier data are a sibling of X,
    otherwise the plain table Z * scale."""
    if Z.size and int(abs(float(Z.flat[0])) * 1e6) % 2 == 0:
        return sibling(X, Z)
    return Z * scale
