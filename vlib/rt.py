"""Runtime monitors (instrumentation toolbox).

M1  GreedyTrace     per-pick / per-commit trace of any greedy selector instance
M2  hook / rebind   pre/post wrappers on methods and on functions wherever bound
M3  purity guards   byte snapshots, write-protected argument variants
M4  FPTrap          floating-point exception trap attributing events to skmatter code
M5  Reach           sys.monitoring line-reach tracer (evidence only)
M6  ScriptedClock   injected clocks for the VoronoiFPS calibration
"""

from __future__ import annotations

import contextlib
import os
import sys
import types

from . import common  # noqa: F401  (sets up env / sys.path)

import numpy as np

SKM_DIR = os.path.realpath(os.path.join(common.REPO, "src", "skmatter"))


# --------------------------------------------------------------------------- M2


@contextlib.contextmanager
def patched(obj, name, new):
    """Temporarily set ``obj.name = new`` (class or module attribute)."""
    missing = object()
    old = obj.__dict__.get(name, missing) if hasattr(obj, "__dict__") else missing
    had = old is not missing
    setattr(obj, name, new)
    try:
        yield
    finally:
        if had:
            setattr(obj, name, old)
        else:
            try:
                delattr(obj, name)
            except AttributeError:
                pass


def hook_method(cls, name, pre=None, post=None, counter=None):
    """Return a context manager wrapping ``cls.name`` with pre/post observers.

    pre(self, args, kwargs) -> token ; post(self, token, result, args, kwargs).
    Observers record, they never raise into the library.  ``counter`` (a list of one
    int) is incremented per evaluation so that zero evaluations can be reported as
    inconclusive."""
    orig = getattr(cls, name)

    def wrapper(self, *a, **kw):
        if counter is not None:
            counter[0] += 1
        tok = pre(self, a, kw) if pre else None
        res = orig(self, *a, **kw)
        if post:
            post(self, tok, res, a, kw)
        return res

    wrapper.__name__ = getattr(orig, "__name__", name)
    wrapper.__wrapped__ = orig
    return patched(cls, name, wrapper)


@contextlib.contextmanager
def rebind(func, make_wrapper, prefix="skmatter"):
    """Replace every module-level binding of ``func`` in ``prefix``* modules by
    ``make_wrapper(func)`` (``from x import f`` binds early, so the defining module
    alone is not enough)."""
    wrapper = make_wrapper(func)
    sites = []
    for mname, mod in list(sys.modules.items()):
        if mod is None or not mname.startswith(prefix):
            continue
        for k, v in list(vars(mod).items()):
            if v is func:
                sites.append((mod, k))
    for mod, k in sites:
        setattr(mod, k, wrapper)
    try:
        yield sites
    finally:
        for mod, k in sites:
            setattr(mod, k, func)


# --------------------------------------------------------------------------- M1


class GreedyTrace:
    """Instance-level recorder for a greedy selector.

    Shadows ``_get_best_new_selection``, ``_update_post_selection``,
    ``_init_greedy_search``, ``_continue_greedy_search`` (and ``_get_active`` where it
    exists) *on the instance*; the originals (with their ``super()`` chains) run
    unchanged underneath.  Events (in order):

      {"ev":"start","mode":"cold"|"warm","n":resolved n_to_select}
      {"ev":"pick","scores":copy,"chosen":int|None,"first_score":..}
      {"ev":"commit","idx":int,"n_before":int,"n_after":int,
       "table":copy of hausdorff_|pi_, "active":int|None}
    """

    NAMES = (
        "_get_best_new_selection",
        "_update_post_selection",
        "_init_greedy_search",
        "_continue_greedy_search",
        "_get_active",
    )

    def __init__(self, est, tables=True):
        self.est = est
        self.events = []
        self.tables = tables
        self._in_commit = 0
        self.missing = []
        cls = type(est)
        for n in self.NAMES:
            if not hasattr(cls, n):
                if n != "_get_active":
                    self.missing.append(n)
                continue
            orig = getattr(cls, n).__get__(est, cls)
            setattr_inst(est, n, getattr(self, "_w" + n)(orig))

    def detach(self):
        for n in self.NAMES:
            self.est.__dict__.pop(n, None)

    def attach(self, est):
        """(re-)attach to an estimator object, keeping the event list (used when the object under observation is
        replaced by its deep copy / unpickled copy between two fits)."""
        self.est = est
        cls = type(est)
        for n in self.NAMES:
            if hasattr(cls, n):
                orig = getattr(cls, n).__get__(est, cls)
                setattr_inst(est, n, getattr(self, "_w" + n)(orig))

    # wrappers ------------------------------------------------------------
    def _w_get_best_new_selection(self, orig):
        def w(scorer, X, y):
            seen = {}

            def scorer2(X_, y_):
                s = scorer(X_, y_)
                seen["scores"] = np.array(s, dtype=float, copy=True)
                return s

            res = orig(scorer2, X, y)
            self.events.append(
                {
                    "ev": "pick",
                    "scores": seen.get("scores"),
                    "chosen": None if res is None else int(res),
                    "first_score": getattr(self.est, "first_score_", None),
                }
            )
            return res

        return w

    def _table(self):
        e = self.est
        for n in ("hausdorff_", "pi_"):
            if hasattr(e, n):
                return np.array(getattr(e, n), dtype=float, copy=True)
        return None

    def _w_update_post_selection(self, orig):
        def w(X, y, last_selected):
            nb = int(getattr(self.est, "n_selected_", 0))
            self._active = None
            self._in_commit += 1
            try:
                res = orig(X, y, last_selected)
            finally:
                self._in_commit -= 1
            ev = {
                "ev": "commit",
                "idx": int(last_selected),
                "n_before": nb,
                "n_after": int(getattr(self.est, "n_selected_", -1)),
                "active": self._active,
                "n_items": int(X.shape[getattr(self.est, "_axis", 0)]),
            }
            if self.tables:
                ev["table"] = self._table()
            ff = getattr(self.est, "full_fraction", None)
            if self._active is not None and ff is not None:
                ev["dense"] = bool(self._active / X.shape[0] > ff) if self._active else None
            self.events.append(ev)
            return res

        return w

    def _w_get_active(self, orig):
        def w(X, last_selected):
            res = orig(X, last_selected)
            self._active = int(len(res))
            return res

        return w

    def _w_init_greedy_search(self, orig):
        def w(X, y, n_to_select):
            self.events.append({"ev": "start", "mode": "cold", "n": int(n_to_select)})
            return orig(X, y, n_to_select)

        return w

    def _w_continue_greedy_search(self, orig):
        def w(X, y, n_to_select):
            self.events.append(
                {
                    "ev": "start",
                    "mode": "warm",
                    "n": int(n_to_select),
                    "n_selected_before": int(getattr(self.est, "n_selected_", -1)),
                }
            )
            return orig(X, y, n_to_select)

        return w

    # views ---------------------------------------------------------------
    def commits(self):
        return [e for e in self.events if e["ev"] == "commit"]

    def picks(self):
        return [e for e in self.events if e["ev"] == "pick"]

    def threshold_stops(self):
        return [e for e in self.events if e["ev"] == "pick" and e["chosen"] is None]

    def since_last_start(self):
        k = max((i for i, e in enumerate(self.events) if e["ev"] == "start"), default=0)
        return self.events[k:]


def setattr_inst(obj, name, val):
    obj.__dict__[name] = val


# --------------------------------------------------------------------------- M3


def iter_arrays(obj, path="", _seen=None):
    """All ndarrays reachable from obj through lists / tuples / dicts."""
    if _seen is None:
        _seen = set()
    if id(obj) in _seen:
        return
    if isinstance(obj, np.ndarray):
        _seen.add(id(obj))
        yield path, obj
    elif isinstance(obj, (list, tuple)):
        _seen.add(id(obj))
        for i, v in enumerate(obj):
            yield from iter_arrays(v, f"{path}[{i}]", _seen)
    elif isinstance(obj, dict):
        _seen.add(id(obj))
        for k, v in obj.items():
            yield from iter_arrays(v, f"{path}.{k}", _seen)


def snapshot(obj):
    out = {}
    for p, a in iter_arrays(obj):
        out[p] = (a.shape, str(a.dtype), a.tobytes(), a.flags.writeable)
    # also plain lists of numbers
    for p, l in _iter_lists(obj):
        out["list:" + p] = repr(l)
    return out


def _iter_lists(obj, path=""):
    if isinstance(obj, list):
        if all(isinstance(v, (int, float, np.integer, np.floating)) for v in obj):
            yield path, obj
        else:
            for i, v in enumerate(obj):
                yield from _iter_lists(v, f"{path}[{i}]")
    elif isinstance(obj, tuple):
        for i, v in enumerate(obj):
            yield from _iter_lists(v, f"{path}[{i}]")
    elif isinstance(obj, dict):
        for k, v in obj.items():
            yield from _iter_lists(v, f"{path}.{k}")


def diff_snapshot(before, obj):
    """Paths whose bytes changed."""
    after = snapshot(obj)
    changed = []
    for p, v in before.items():
        w = after.get(p)
        if w is None:
            changed.append(p)
        elif isinstance(v, tuple):
            if w[:3] != v[:3]:
                changed.append(p)
        elif w != v:
            changed.append(p)
    return changed


def layout_variant(a, layout, readonly):
    """Copy of ``a`` with a chosen memory layout; optionally write-protected."""
    a = np.asarray(a)
    if layout == "C":
        b = np.array(a, order="C", copy=True)
    elif layout == "F":
        b = np.array(a, order="F", copy=True)
    elif layout == "strided":
        if a.ndim == 0:
            b = np.array(a, copy=True)
        else:
            big = np.zeros(tuple(2 * s for s in a.shape), dtype=a.dtype)
            sl = tuple(slice(None, None, 2) for _ in a.shape)
            big[sl] = a
            b = big[sl]
    else:
        raise ValueError(layout)
    if readonly:
        b.setflags(write=False)
    return b


def map_arrays(obj, fn):
    if isinstance(obj, np.ndarray):
        return fn(obj)
    if isinstance(obj, list):
        return [map_arrays(v, fn) for v in obj]
    if isinstance(obj, tuple):
        return tuple(map_arrays(v, fn) for v in obj)
    if isinstance(obj, dict):
        return {k: map_arrays(v, fn) for k, v in obj.items()}
    return obj


def is_readonly_fault(exc):
    s = str(exc).lower()
    return isinstance(exc, ValueError) and ("read-only" in s or "readonly" in s)


def public_state(est):
    """Fitted public attributes: names ending in '_' and not starting with '_'."""
    return {
        k: v
        for k, v in vars(est).items()
        if k.endswith("_") and not k.startswith("_") and not k.endswith("__")
    }


# --------------------------------------------------------------------------- M4


class FPTrap:
    """np.errstate(all='call') with a logger attributing each event to the innermost
    frame of skmatter source.  Records; never raises."""

    def __init__(self):
        self.events = []  # (kind, function, file:line)

    def _cb(self, kind, flag):
        f = sys._getframe(1)
        where = None
        while f is not None:
            fn = os.path.realpath(f.f_code.co_filename)
            if fn.startswith(SKM_DIR):
                where = (f.f_code.co_name, os.path.relpath(fn, SKM_DIR), f.f_lineno)
                break
            f = f.f_back
        if len(self.events) < 1000:
            self.events.append((kind,) + (where or ("<outside skmatter>", "", 0)))

    def __enter__(self):
        self._ctx = np.errstate(all="call", call=self._cb)
        self._ctx.__enter__()
        return self

    def __exit__(self, *a):
        return self._ctx.__exit__(*a)

    def in_skmatter(self, kinds=("invalid", "divide by zero", "overflow")):
        return [e for e in self.events if e[1] != "<outside skmatter>" and any(k in e[0] for k in kinds)]

    def summary(self):
        from collections import Counter

        return Counter((e[0], e[1]) for e in self.events)


# --------------------------------------------------------------------------- M5


class Reach:
    """Which skmatter functions / lines did the workload execute (evidence only)."""

    TOOL = 4

    def __init__(self):
        self.lines = set()
        self.active = False

    def __enter__(self):
        mon = getattr(sys, "monitoring", None)
        if mon is None:
            return self
        try:
            mon.use_tool_id(self.TOOL, "verif-reach")
        except ValueError:
            return self
        self.active = True

        def on_line(code, line):
            fn = code.co_filename
            if fn.startswith(SKM_DIR) or os.path.realpath(fn).startswith(SKM_DIR):
                self.lines.add((os.path.relpath(os.path.realpath(fn), SKM_DIR), code.co_qualname, line))
            return mon.DISABLE

        mon.register_callback(self.TOOL, mon.events.LINE, on_line)
        mon.set_events(self.TOOL, mon.events.LINE)
        return self

    def __exit__(self, *a):
        if self.active:
            mon = sys.monitoring
            mon.set_events(self.TOOL, 0)
            mon.register_callback(self.TOOL, mon.events.LINE, None)
            mon.free_tool_id(self.TOOL)
            self.active = False

    def functions(self):
        out = {}
        for f, q, l in self.lines:
            out.setdefault(f"{f}::{q}", set()).add(l)
        return {k: len(v) for k, v in sorted(out.items())}


# --------------------------------------------------------------------------- M6


class ScriptedClock:
    """Replacement for ``time()`` in the VoronoiFPS calibration.

    kinds: 'zero' (all durations 0), 'walk' (monotone random increments),
    'backwards' (random increments of either sign), 'alternate' (huge / tiny),
    'steer' (answers so that the bisection converges to ``target``: the sparse
    trial is reported faster than the dense one iff the trial fraction < target).
    """

    def __init__(self, kind, rng, est=None, target=None):
        self.kind = kind
        self.rng = rng
        self.est = est
        self.target = target
        self.t = 1000.0
        self.calls = 0

    def __call__(self):
        self.calls += 1
        k = self.kind
        if k == "zero":
            return self.t
        if k == "walk":
            self.t += float(self.rng.exponential(1.0))
        elif k == "backwards":
            self.t += float(self.rng.normal(0.0, 1.0))
        elif k == "alternate":
            self.t += 1e6 if self.calls % 2 else 1e-9
        elif k == "steer":
            # Calls 1,2 bracket the dense timing (duration 1 per trial in total);
            # later pairs bracket one sparse trial each.
            ntrial = max(int(getattr(self.est, "n_trial_calculation", 1) or 1), 1)
            if self.calls == 2:
                self.t += float(ntrial)  # dense mean = 1.0
            elif self.calls > 2 and self.calls % 2 == 0:
                ff = getattr(self.est, "full_fraction", None)
                fast = ff is not None and ff < self.target
                self.t += 0.5 if fast else 2.0
        else:
            raise ValueError(k)
        return self.t


# --------------------------------------------------------------------------- per-call purity guard


class PurityGuard:
    """Context manager: byte snapshots of every array / list argument around EVERY public constructor, fit /
    transform / predict / score ... method and metric / utility function call made while it is active - so that
    intermediate results which the caller hands from one call to the next (T = transform(X); inverse_transform(T))
    are guarded like the original arguments.  Explicit opt-ins to in-place work (copy=False given by the caller;
    X_orthogonalizer without copy=True) are exempt.  Records, never raises."""

    METHODS = ("fit", "transform", "predict", "score", "inverse_transform", "fit_transform", "score_samples", "score_feature_matrix")
    FUNCS = ("pointwise_global_reconstruction_error", "global_reconstruction_error", "pointwise_global_reconstruction_distortion", "global_reconstruction_distortion", "pointwise_local_reconstruction_error", "local_reconstruction_error", "local_prediction_rigidity", "componentwise_prediction_rigidity", "periodic_pairwise_euclidean_distances", "pairwise_mahalanobis_distances")

    def __init__(self):
        self.violations = []
        self.calls = 0
        self.arrays = 0
        self._undo = []

    def _wrap(self, name, orig, is_method, opt_in=None):
        guard = self

        def wrapper(*a, **kw):
            if opt_in is not None and opt_in(a, kw):
                return orig(*a, **kw)
            args = (a[1:] if is_method else a, kw)
            before = snapshot(args)
            res = orig(*a, **kw)
            try:
                changed = diff_snapshot(before, args)
                guard.calls += 1
                guard.arrays += len(before)
                if changed:
                    guard.violations.append({"call": name, "modified": changed})
            except Exception:  # noqa: BLE001
                pass
            return res

        wrapper.__name__ = getattr(orig, "__name__", name)
        wrapper.__doc__ = getattr(orig, "__doc__", None)
        wrapper.__wrapped__ = orig
        return wrapper

    def __enter__(self):
        import skmatter.clustering as cl
        import skmatter.decomposition as dc
        import skmatter.linear_model as lm
        import skmatter.metrics as mt
        import skmatter.neighbors as nb
        import skmatter.preprocessing as pp
        import skmatter.sample_selection as ss
        import skmatter.utils as ut
        from skmatter._selection import GreedySelector

        copy_false = lambda a, kw: kw.get("copy") is False  # noqa: E731
        classes = [GreedySelector, ss.DirectionalConvexHull, dc.PCovR, dc.KernelPCovR, pp.StandardFlexibleScaler, pp.KernelNormalizer, pp.SparseKernelCenterer, lm.Ridge2FoldCV, lm.OrthogonalRegression, nb.SparseKDE, cl.QuickShift]
        for cls in classes:
            names = list(self.METHODS) + (["__init__"] if cls in (nb.SparseKDE, cl.QuickShift) else [])
            for m in names:
                if m in cls.__dict__:
                    orig = cls.__dict__[m]
                    setattr(cls, m, self._wrap(f"{cls.__name__}.{m}", orig, True, copy_false))
                    self._undo.append((cls, m, orig))

        def rebind_all(func, name, opt_in=None):
            w = self._wrap(name, func, False, opt_in)
            for mname, mod in list(sys.modules.items()):
                if mod is None or not mname.startswith("skmatter"):
                    continue
                for k, v in list(vars(mod).items()):
                    if v is func:
                        setattr(mod, k, w)
                        self._undo.append((mod, k, func))

        for fn in self.FUNCS:
            rebind_all(getattr(mt, fn), f"metrics.{fn}")
        rebind_all(ut.X_orthogonalizer, "utils.X_orthogonalizer", lambda a, kw: kw.get("copy") is not True)
        rebind_all(ut.Y_feature_orthogonalizer, "utils.Y_feature_orthogonalizer", copy_false)
        rebind_all(ut.Y_sample_orthogonalizer, "utils.Y_sample_orthogonalizer", copy_false)
        rebind_all(ut.pcovr_covariance, "utils.pcovr_covariance")
        rebind_all(ut.pcovr_kernel, "utils.pcovr_kernel")
        return self

    def __exit__(self, *exc):
        for obj, k, orig in reversed(self._undo):
            setattr(obj, k, orig)
        self._undo = []
        return False
