"""C17 - SparseKDE is a well-formed mixture consistent with its Voronoi assignment.

Monitor: M2 hooks on _NearestGridAssigner.predict (labels, grid weights, member lists),
on SparseKDE._bandwidth_estimation_from_localization (localised weights as they enter,
bandwidth as it leaves), on oas as bound in the module (inputs -> shrinkage
coefficient); M4 FP-exception trap around fit/score_samples; M7 iteration watchdog on
_local_population; public bandwidth_, score_samples, score.
Oracle: brute-force nearest grid point under the (periodic) metric, explicit mixture
assembled from the public bandwidths, relations (translation, permutations, images).
"""

from __future__ import annotations

import numpy as np

from .. import gens, rt
from ..common import Skip, brief

ID = "C17"
CASES = {"quick": 640, "thorough": 8000}
FLOOR = {"quick": 450, "thorough": 6000}
FLOOR_COUNTERS = {
    "quick": {"queries_within_1e-6_relative_of_a_descriptor": 80, "queries_sharing_a_coordinate": 150, "bandwidths_judged": 3000, "queries_judged": 2500, "assignments_judged": 30000, "degenerate_cloud_models": 80, "periodic_models": 100, "relation_pairs": 900, "oas_calls_seen": 3000, "estimators_with_a_past": 120, "metric_given_explicitly": 200, "models_with_zero_weights": 40, "evaluations_above_2^22_grid_pairs_x_queries": 2, "weights_sharing_memory_with_the_descriptors": 12, "fits_repeated_after_an_abort_inside_the_metric": 8},
    "thorough": {"queries_within_1e-6_relative_of_a_descriptor": 1200, "queries_sharing_a_coordinate": 2000, "bandwidths_judged": 45000, "queries_judged": 35000, "assignments_judged": 450000, "degenerate_cloud_models": 1000, "periodic_models": 1300, "relation_pairs": 12000, "oas_calls_seen": 45000, "estimators_with_a_past": 1800, "metric_given_explicitly": 2500, "models_with_zero_weights": 500, "evaluations_above_2^22_grid_pairs_x_queries": 18, "weights_sharing_memory_with_the_descriptors": 250, "fits_repeated_after_an_abort_inside_the_metric": 120},
}
RULE = (
    "case = descriptor cloud (1-4 dimensions, 30-160 points; multi-modal / anisotropic / collinear / constant coordinate / "
    "generic), weights None|random, grid = FPS-selected descriptors | random subset | off-sample points (4-16), fpoints in "
    "(0.02,0.9) or fspread in (0.05,3), optional cell, 6 queries (non-descriptors; 1 case in 4: one of them within a relative 5e-7 of a descriptor). non-trivial = model produced and >= 1 "
    "relation judged; distinct by data hash."
)
RULE = RULE + " " + 'One case in 5: the whole configuration in another length unit (x 2^-200, 2^-66, 2^40, 2^150).'
ASSUMPTIONS = [
    "configurations in which a single grid point holds all the weight (decided by a brute-force assignment before the fit) are skipped: no localisation can reach another populated grid point, which is the property's proviso; the library's weighted covariance of the grid is 0 / 0 there and fit ends in OverflowError (DESIGN 11.5)",
    "proviso of the property (localisation reaches another grid point): a bandwidth is judged only when the second largest captured localised weight is >= 1e-6 of the largest; models with a grid point outside the proviso are not used for relations",
    "the mixture oracle uses the public bandwidth_ and the captured assignment after that assignment has been checked against brute force",
    "relations are judged on configurations without assignment ties; tolerance 1e-6 on log-densities (bandwidth localisation is iterative)",
    "the localisation loops are capped at 1e5 _local_population calls per fit (exceeding it is inconclusive for the case)",
]
KINDS = ("bimodal", "bimodal", "anisotropic", "generic", "collinear", "constant_coord", "tight_clusters", "quantised")


class _Watchdog(Exception):
    pass


def _reaches_other(wl):
    """The property's proviso: the localisation reaches at least one other grid point.
    Operationally: the second largest localised weight is at least 1e-6 of the largest,
    so that the covariance normaliser 1 - sum(w^2) is not pure cancellation."""
    wl = np.sort(np.asarray(wl, dtype=float))[::-1]
    return len(wl) >= 2 and wl[1] >= 1e-6 * max(wl[0], 1e-300)


def _cloud(rng, n, d, kind):
    if kind == "generic":
        return rng.normal(size=(n, d))
    if kind == "bimodal":
        a = rng.normal(size=(n // 2, d))
        b = rng.normal(size=(n - n // 2, d)) * rng.uniform(0.3, 2.0, size=d) + 5.0
        return np.vstack([a, b])
    if kind == "anisotropic":
        return rng.normal(size=(n, d)) * 10.0 ** rng.uniform(-1.5, 1, size=d)
    if kind == "collinear":
        if d == 1:
            return rng.normal(size=(n, 1))
        return np.outer(rng.normal(size=n), rng.normal(size=d))
    if kind == "constant_coord":
        X = rng.normal(size=(n, d))
        if d > 1:
            X[:, int(rng.integers(d))] = float(rng.normal())
        return X
    if kind == "quantised":  # measured on a coarse scale: many descriptors share coordinate values
        return np.round(rng.normal(size=(n, d)) * 2) / 2 + (rng.random(size=(n, d)) < 0.3) * rng.normal(size=(n, d)) * 0.1
    c = rng.normal(size=(4, d)) * 6  # tight_clusters
    return c[rng.integers(0, 4, size=n)] + 0.05 * rng.normal(size=(n, d))


def gen(rng, tier, index):
    d = int(rng.integers(1, 5))
    n = int(rng.integers(30, 110 if tier == "quick" else 260))
    kind = gens.pick(rng, KINDS)
    D = _cloud(rng, n, d, kind)
    cell = None
    if index % 4 == 3:
        span = D.max(0) - D.min(0) + 1e-3
        cell = span * rng.uniform(1.2, 3.0, size=d)
    M = int(rng.integers(4, 17))
    gk = gens.pick(rng, ("fps", "fps", "subset", "offsample"))
    bigq = index % 320 == 5  # one evaluation call with n_grid^2 x n_queries above 2^22 (what a blocked evaluation would split)
    if bigq:
        kind = "bimodal" if "bimodal" in KINDS else kind
        n, d = 420, int(rng.integers(1, 3))
        D = _cloud(rng, n, d, kind)
        cell = None
        M, gk = int(rng.integers(66, 72)), "subset"
    if gk == "offsample":
        G = D[rng.permutation(n)[:M]] + 0.3 * D.std(axis=0).mean() * rng.normal(size=(M, d))
    else:
        G = None  # resolved in run (FPS needs the library)
    nq = 6 if not bigq else int(rng.integers(1000, 1100))
    Qq = D[rng.integers(0, n, size=nq)] + 0.37 * D.std(axis=0).mean() * rng.normal(size=(nq, d))
    if kind == "constant_coord" and d > 1:
        const = np.flatnonzero(D.std(axis=0) == 0)
        Qq[:, const] = D[0, const]  # queries in the data's own hyper-plane share that coordinate exactly
    if kind == "quantised":
        Qq = np.round(Qq * 2) / 2
        Qq[:, 0] += 0.25  # quantised like the data in all but one coordinate, hence never a descriptor
    alias_w = bool(kind in ("bimodal", "anisotropic", "generic") and d >= 2 and not bigq and rng.random() < 0.2)
    if alias_w:  # the weights will be handed over as a VIEW of a (positive) descriptor column
        D[:, -1] = np.abs(D[:, -1]) + 0.1
        Qq = D[rng.integers(0, n, size=nq)] + 0.37 * D.std(axis=0).mean() * rng.normal(size=(nq, d))
    near = bool(index % 4 == 1 and not bigq)
    if near:
        # a query that is not a descriptor but lies within a relative 5e-7 of one (the same configuration written out
        # and read back with seven digits): only an identical descriptor is left out of the sum
        Qq[0] = D[index % n] * (1.0 + 2.0**-21) + 2.0**-24 * float(D.std(axis=0).mean())
    uexp = 0
    if index % 5 == 2 and not bigq:
        # the whole configuration in another length unit (an exact power of two between 2^-200 and 2^150): judged by
        # the same oracles in that unit (no relation across units is claimed: the fspread localisation compares a
        # squared length with a population, DESIGN 11.5)
        uexp = (-200, -66, 40, 150)[(index // 5) % 4]
        u_ = float(2.0**uexp)
        D, Qq = D * u_, Qq * u_
        G = None if G is None else G * u_
        cell = None if cell is None else cell * u_
    loc = {"fpoints": float(rng.uniform(0.02, 0.9))} if rng.random() < 0.6 else {"fspread": float(10.0 ** rng.uniform(np.log10(0.05), np.log10(3.0)))}
    return {
        "D": D,
        "w": (D[:, -1].copy() if alias_w else (None if rng.random() < 0.5 else rng.uniform(0.2, 2.0, size=n) * (rng.random(n) >= (0.15 if rng.random() < 0.3 else 0.0)))),  # some sets with exactly-zero weights
        "alias_w": alias_w,
        "aborted_fit": int(rng.integers(1, 4)) if rng.random() < 0.3 else 0,
        "metric_route": gens.pick(rng, ("none", "none", "explicit", "partial", "wrapper")),
        "kind": kind,
        "cell": cell,
        "grid_kind": gk,
        "G": G,
        "M": M,
        "gseed": int(rng.integers(1 << 30)),
        "past": bool(rng.random() < 0.35),  # the estimator was fitted to another grid and evaluated before
        "loc": loc,
        "Q": Qq,
        "t": rng.normal(size=d) * 5 * float(2.0**uexp),
        "pd": rng.permutation(n),
        "pg": rng.permutation(M),
        "kd": rng.integers(-2, 3, size=(n, d)),
        "kg": rng.integers(-2, 3, size=(M, d)),
        "kq": rng.integers(-2, 3, size=(nq, d)),
        "bigq": bool(bigq),
        "near_query": near,
        "unit_exp": uexp,
    }


def _grid(case):
    """Grid points are pairwise distinct (a grid with a repeated point is a degenerate mixture; the
    library's localisation loop does not terminate on it - see DESIGN.md 11.5)."""
    D, M = case["D"], case["M"]
    if case["grid_kind"] == "offsample":
        return case["G"]
    U = np.unique(D, axis=0)
    M = min(M, len(U))
    if case["grid_kind"] == "subset" or D.shape[1] < 2:  # the selectors need two features
        return U[np.random.default_rng(case["gseed"]).permutation(len(U))[:M]].copy()
    from skmatter.sample_selection import FPS

    return U[FPS(n_to_select=M, initialize=int(case["gseed"] % len(U))).fit(U).selected_idx_].copy()


def _dist2(A, B, cell):
    diff = A[:, None, :] - B[None, :, :]
    if cell is not None:
        diff = diff - np.round(diff / cell) * cell
    return (diff**2).sum(-1), diff


class Probe:
    """All M2 / M4 / M7 instrumentation of one fit."""

    def __init__(self, cov_ref=False):
        self.assign = None
        self.local = []  # (idx, wlocal copy, flocal[idx], h copy)
        self.oas = []  # (phi, n, D)
        self.fp = rt.FPTrap()
        self.calls = 0
        self.cov_ref = cov_ref
        self.missing = []
        self.pending = None

    def __enter__(self):
        import skmatter.neighbors._sparsekde as mod
        from skmatter.neighbors import SparseKDE

        self._ctx = []
        A = getattr(mod, "_NearestGridAssigner", None)
        if A is not None and hasattr(A, "predict"):
            def post_assign(slf, tok, res, a, k):
                self.assign = {"labels": np.array(slf.labels_, dtype=int), "grid_weight": np.array(slf.grid_weight, dtype=float), "members": {int(g): np.array(v, dtype=int) for g, v in slf.grid_neighbour.items()}}

            self._ctx.append(rt.hook_method(A, "predict", post=post_assign))
        else:
            self.missing.append("assigner")
        if hasattr(SparseKDE, "_bandwidth_estimation_from_localization"):
            def pre_bw(slf, a, k):
                tok = (int(a[3]), np.array(a[1], dtype=float, copy=True), float(np.asarray(a[2])[a[3]]))
                self.pending = tok  # still set if the estimate raises
                return tok

            def post_bw(slf, tok, res, a, k):
                self.pending = None
                self.local.append(tok + (np.array(res[0], copy=True),))

            self._ctx.append(rt.hook_method(SparseKDE, "_bandwidth_estimation_from_localization", pre=pre_bw, post=post_bw))
        else:
            self.missing.append("bandwidth_estimation")
        if hasattr(mod, "oas"):
            orig_oas = mod.oas

            def w_oas(cov, n, D):
                cov = np.asarray(cov, dtype=float)
                tr = np.trace(cov)
                tr_cov2 = np.trace(cov**2)
                with np.errstate(all="ignore"):
                    phi = ((1 - 2 / D) * tr_cov2 + tr**2) / ((n + 1 - 2 / D) * tr_cov2 - tr**2 / D)
                out = orig_oas(cov, n, D)
                # shrinkage actually applied, read off the result: out = (1 - phi) cov + phi tr/D I
                T = np.eye(D) * tr / D - cov
                den = float((T * T).sum())
                applied = float(((np.asarray(out) - cov) * T).sum() / den) if den > 0 else 0.0
                self.oas.append((applied if np.isfinite(applied) else float(phi), float(n), int(D), float(phi)))
                return out

            self._ctx.append(rt.patched(mod, "oas", w_oas))
        else:
            self.missing.append("oas")
        if hasattr(mod, "_local_population"):
            orig_lp = mod._local_population

            def w_lp(*a, **k):
                self.calls += 1
                if self.calls > 100000:
                    raise _Watchdog()
                return orig_lp(*a, **k)

            self._ctx.append(rt.patched(mod, "_local_population", w_lp))
        if self.cov_ref and hasattr(mod, "_covariance"):
            self._ctx.append(rt.patched(mod, "_covariance", _covariance_reference))
        for c in self._ctx:
            c.__enter__()
        self.fp.__enter__()
        return self

    def __exit__(self, *a):
        self.fp.__exit__(*a)
        for c in reversed(self._ctx):
            c.__exit__(*a)


def _covariance_reference(X, sample_weights, cell):
    """Weighted covariance with the correct circular mean for periodic coordinates
    (used only by the classifier of known finding K4)."""
    w = sample_weights / np.sum(sample_weights)
    if cell is None:
        xm = np.average(X, axis=0, weights=w)
    else:
        ang = 2 * np.pi * X / cell
        xm = np.arctan2(np.average(np.sin(ang), axis=0, weights=w), np.average(np.cos(ang), axis=0, weights=w)) * cell / (2 * np.pi)
    xxm = X - xm
    if cell is not None:
        xxm = xxm - np.round(xxm / cell) * cell
    cov = (xxm * w.reshape(-1, 1)).T.dot(xxm)
    return cov / (1 - np.sum(w**2))


def _model(case, D, w, G, cell, probe, past=True):
    from skmatter.neighbors import SparseKDE

    mp = None if cell is None else {"cell_length": cell.copy()}
    route = case.get("metric_route", "none")
    abort = {"at": 0}
    mkw = {}
    if route != "none":
        # the same periodic metric handed over explicitly, in the public forms a user would write it
        import functools

        from skmatter.metrics import periodic_pairwise_euclidean_distances as _ped

        if route == "explicit":
            mkw["metric"] = _ped
        elif route == "partial":
            mkw["metric"] = functools.partial(_ped)
        else:
            def forwarding(X, Y=None, **kwargs):
                if abort["at"]:
                    abort["at"] -= 1
                    if not abort["at"]:
                        raise RuntimeError("metric aborted (simulated)")
                return _ped(X, Y, **kwargs)

            mkw["metric"] = forwarding
        probe.metric_route = route
    est = None
    if case.get("past") and past:
        # an estimator with a past: fit on another grid (other size), evaluate (fills whatever is derived lazily from
        # the bandwidths), then fit the grid of the case; a decoy that cannot be fitted is simply not used
        pr0 = np.random.default_rng(case["gseed"])
        Du = np.unique(D, axis=0)
        m0 = int(pr0.integers(2, max(3, min(len(Du), 14)) + 1))
        if m0 == len(G):
            m0 = m0 + 1 if m0 < len(Du) else m0 - 1
        try:
            if m0 < 2 or m0 > len(Du):
                raise ValueError("no second grid")
            with Probe():
                e0 = SparseKDE(D.copy(), None if w is None else w.copy(), metric_params=mp, **mkw, **case["loc"])
                e0.fit(Du[pr0.permutation(len(Du))[:m0]].copy())
                q0 = D[pr0.permutation(len(D))[:5]] + 0.01 * pr0.normal(size=(min(5, len(D)), D.shape[1]))
                if np.all(np.isfinite(e0.bandwidth_)):
                    e0.score_samples(q0)
                    e0.score(q0)
            est = e0
            probe.past = True
        except Exception:  # noqa: BLE001  (watchdog, singular decoy bandwidths, ...)
            est = None
    if est is None:
        Dfit = D.copy()
        wfit = None if w is None else w.copy()
        if case.get("alias_w") and w is not None and np.array_equal(w, D[:, -1]):
            wfit = Dfit[:, -1]  # the weights share memory with the descriptors
            probe.alias = True
        est = SparseKDE(Dfit, wfit, metric_params=mp, **mkw, **case["loc"])
        if case.get("aborted_fit") and route == "wrapper" and past:
            # a failure in the history: a successful fit on another grid of the same size, then a fit on the grid of the case
            # that is aborted inside the user's metric, then the same fit repeated
            Du = np.unique(D, axis=0)
            if len(Du) > len(G) + 1:
                try:
                    with Probe():
                        est.fit(Du[np.random.default_rng(case["gseed"] + 1).permutation(len(Du))[: len(G)]].copy())
                    abort["at"] = int(case["aborted_fit"])
                    try:
                        est.fit(G.copy())
                    except RuntimeError:
                        probe.aborted = True
                    abort["at"] = 0
                except Exception:  # noqa: BLE001
                    abort["at"] = 0
                    est = SparseKDE(Dfit, wfit, metric_params=mp, **mkw, **case["loc"])
    with probe:
        est.fit(G.copy())
    return est


def _mixture(est, D, wn, G, cell, labels, Q):
    """log of the documented mixture at the queries Q."""
    d = D.shape[1]
    H = np.asarray(est.bandwidth_)
    Hi = np.array([np.linalg.inv(h) for h in H])
    norm = np.array([d * np.log(2 * np.pi) + np.linalg.slogdet(h)[1] for h in H])
    gw = np.array([wn[labels == g].sum() for g in range(len(G))])
    cut2 = (3 * (np.sqrt(d) + 1)) ** 2
    out = np.full(len(Q), -np.inf)
    for qi, q in enumerate(Q):
        terms = []
        _, dg = _dist2(q[None, :], G, cell)
        for g in range(len(G)):
            m2 = float(dg[0, g] @ Hi[g] @ dg[0, g])
            if m2 > cut2:
                if gw[g] > 0:
                    terms.append(-0.5 * (norm[g] + m2) + np.log(gw[g]))
            else:
                mem = np.flatnonzero(labels == g)
                mem = mem[np.any(D[mem] != q, axis=1)] if len(mem) else mem
                mem = mem[wn[mem] > 0] if len(mem) else mem  # a descriptor of weight zero contributes nothing
                if len(mem):
                    _, dd = _dist2(D[mem], q[None, :], cell)
                    m2s = np.einsum("ij,jk,ik->i", dd[:, 0, :], Hi[g], dd[:, 0, :])
                    terms.extend(list(-0.5 * (norm[g] + m2s) + np.log(wn[mem])))
        if terms:
            t = np.array(terms)
            out[qi] = t.max() + np.log(np.exp(t - t.max()).sum())
    return out - np.log(gw.sum())


def _judge_model(case, j, est, pr, D, w, G, cell, label):
    """Assignment, weights, bandwidths, mixture of one fitted model. Returns (labels, tie_free)."""
    n, d = D.shape
    wn = np.full(n, 1.0 / n) if w is None else w / w.sum()
    D2, _ = _dist2(D, G, cell)
    labels = None
    tie_free = True
    if pr.assign is not None:
        labels = pr.assign["labels"]
        j.ok("one label per descriptor", labels.shape == (n,), labels.shape)
        mn = D2.min(axis=1)
        ok = D2[np.arange(n), labels] <= mn + 1e-12 * np.maximum(mn, 1e-300) + 1e-300
        j.ok("every descriptor is assigned to its nearest grid point", bool(ok.all()), lambda: {"first_bad": int(np.flatnonzero(~ok)[0]), "d_assigned": float(D2[np.flatnonzero(~ok)[0], labels[np.flatnonzero(~ok)[0]]]), "d_min": float(mn[np.flatnonzero(~ok)[0]])})
        j.note("assignments_judged", n)
        srt = np.sort(D2, axis=1)
        if len(G) > 1 and np.any(srt[:, 1] - srt[:, 0] <= 1e-9 * np.maximum(srt[:, 1], 1e-300)):
            tie_free = False
        gw = np.array([wn[labels == g].sum() for g in range(len(G))])
        j.close("grid weights are the sums of the assigned descriptor weights", pr.assign["grid_weight"], gw, 1e-12)
        j.close("grid weights total one", float(np.sum(pr.assign["grid_weight"])), 1.0, 1e-12)
        for g in range(len(G)):
            if not j.ok("member lists agree with the labels", np.array_equal(np.sort(pr.assign["members"].get(g, np.array([], int))), np.flatnonzero(labels == g))):
                break
    else:
        j.note("assigner_hook_not_reached")
        labels = D2.argmin(axis=1)
    # ---- bandwidths
    H = np.asarray(est.bandwidth_)
    j.ok("one bandwidth matrix per grid point", H.shape == (len(G), d, d), H.shape)
    proviso_hit = False
    for c_i, (idx, wl, fl, h) in enumerate(pr.local):
        reach = int((wl > 1e-6 * max(wl.max(), 1e-300)).sum())
        if not _reaches_other(wl):
            j.skip("proviso:localisation-reaches-no-other-grid-point")
            proviso_hit = True
            continue
        hh = H[idx]
        fin = bool(np.all(np.isfinite(hh)))
        sym = fin and float(np.abs(hh - hh.T).max()) <= 1e-10 * max(float(np.abs(hh).max()), 1e-300)
        ev = np.linalg.eigvalsh((hh + hh.T) / 2) if fin else np.array([np.nan])
        pd = fin and float(ev.min()) > 0
        known = None
        if fin and sym and not pd and c_i < len(pr.oas):
            phi = pr.oas[c_i][0]
            if not (-1e-9 <= phi <= 1.0 + 1e-9):
                known = "K5"
        j.ok(
            "bandwidth finite, symmetric and positive definite (localisation reaches another grid point)",
            fin and sym and pd,
            lambda: {"grid": idx, "finite": fin, "symmetric": sym, "min_eig": float(ev.min()), "local_population": fl * n, "weights_reached": reach, "oas_coefficient": pr.oas[c_i][0] if c_i < len(pr.oas) else None, "fp_events": [e[:2] for e in pr.fp.in_skmatter()[:3]], "model": label},
            known,
        )
        j.note("bandwidths_judged")
    j.note("oas_calls_seen", len(pr.oas))
    return labels, tie_free and not proviso_hit, wn


def run(case, j):
    D, w, cell, Q = case["D"], case["w"], case["cell"], case["Q"]
    n, d = D.shape
    G = _grid(case)
    j.tag(f"cloud:{case['kind']}", f"dim:{d}", f"grid:{case['grid_kind']}", "periodic" if cell is not None else "free", "fpoints" if "fpoints" in case["loc"] else "fspread")
    if case["kind"] in ("collinear", "constant_coord") and d > 1:
        j.note("degenerate_cloud_models")
    if cell is not None:
        j.note("periodic_models")
    pr = Probe()

    def proviso(exc, where):
        # an exception raised while estimating a bandwidth whose localisation reaches no other grid
        # point is outside the property's proviso
        if pr.pending is not None:
            if not _reaches_other(pr.pending[1]):
                return "PROVISO"
        return None

    # proviso of the property, decided before the fit by a brute-force assignment: when one grid point holds all the
    # weight no localisation can reach another populated grid point (the weighted covariance of the grid is 0 / 0)
    D2_pre, _ = _dist2(D, G, cell)
    wn_pre = np.full(n, 1.0 / n) if w is None else np.asarray(w, dtype=float) / float(np.sum(w))
    if int((np.bincount(D2_pre.argmin(axis=1), weights=wn_pre, minlength=len(G)) > 0).sum()) < 2:
        raise Skip("proviso:one-populated-grid-cell")
    try:
        est = j.lib("fit", _model, case, D, w, G, cell, pr, allowed=(_Watchdog,), known=proviso)
    except Skip as sk:
        if sk.reason.startswith("rejected:_Watchdog"):
            raise Skip("watchdog:localisation-loop")
        if j.failures and j.failures[-1]["known"] == "PROVISO":
            j.failures.pop()
            j.judged -= 1
            raise Skip("proviso:localisation-reaches-no-other-grid-point(exception)")
        raise
    if case.get("bigq"):
        j.note("evaluations_above_2^22_grid_pairs_x_queries")
    if getattr(pr, "alias", False):
        j.note("weights_sharing_memory_with_the_descriptors")
    if getattr(pr, "aborted", False):
        j.note("fits_repeated_after_an_abort_inside_the_metric")
    if getattr(pr, "metric_route", None):
        j.note("metric_given_explicitly")
    if w is not None and np.any(w == 0):
        j.note("models_with_zero_weights")
    if getattr(pr, "past", False):
        j.note("estimators_with_a_past")
        j.tag("history:refit-on-other-grid-after-scoring")
    if pr.missing:
        j.note("wrap_points_missing", len(pr.missing))
    labels, tie_free, wn = _judge_model(case, j, est, pr, D, w, G, cell, "base")
    H = np.asarray(est.bandwidth_)
    healthy = bool(np.all(np.isfinite(H))) and all(np.linalg.eigvalsh((h + h.T) / 2).min() > 0 for h in H)
    if not healthy:
        j.skip("densities-not-judged:bandwidths-not-positive-definite")
        j.sample = {"n": n, "dim": d, "cloud": case["kind"], "healthy": False}
        return
    # ---- densities
    with rt.FPTrap() as fpq:
        s = np.asarray(j.lib("score_samples", est.score_samples, Q.copy()))
    want = _mixture(est, D, wn, G, cell, labels, Q)
    j.ok("one log-density per query", s.shape == (len(Q),), s.shape)
    scale = 1e-8 * (1 + np.abs(want))
    j.close("score_samples == log of the documented mixture", s, want, scale, {"fp_events": [e[:2] for e in fpq.in_skmatter()[:3]]})
    j.close("score == sum of the log-densities", float(est.score(Q.copy())), float(np.sum(s)), 1e-9 * (1 + abs(float(np.sum(s)))))
    j.note("queries_judged", len(Q))
    if case.get("unit_exp"):
        j.note("models_in_other_length_units")
    if case.get("near_query") and not np.any(np.all(D == Q[0][None, :], axis=1)):
        j.note("queries_within_1e-6_relative_of_a_descriptor")
    j.note("queries_sharing_a_coordinate", int(sum(bool(np.any(D == q[None, :])) for q in Q)))
    # ---- relations
    tol = 1e-6 * (1 + np.abs(s))
    finite = bool(np.all(np.isfinite(s)))
    rel = 0
    if tie_free and finite and not case.get("bigq"):  # (the large evaluation is judged against the mixture only)
        def refit(D2, w2, G2, cell2=cell, cov_ref=False):
            p2 = Probe(cov_ref=cov_ref)
            return _model(case, D2, w2, G2, cell2, p2)

        if cell is None:
            e2 = refit(D + case["t"], w, G + case["t"])
            j.close("log-density unchanged by translating all data (free space)", e2.score_samples(Q + case["t"]), s, tol)
            rel += 1
        e3 = refit(D[case["pd"]], None if w is None else w[case["pd"]], G)
        j.close("log-density unchanged by permuting the descriptors (with their weights)", e3.score_samples(Q.copy()), s, tol)
        e4 = refit(D, w, G[case["pg"]])
        j.close("log-density unchanged by permuting the grid points", e4.score_samples(Q.copy()), s, tol)
        rel += 2
        if cell is not None:
            j.close("log-density unchanged by shifting queries by whole cells", est.score_samples(Q + case["kq"] * cell), s, tol)
            rel += 1
            for lab, (Dn, Gn) in {"descriptors": (D + case["kd"] * cell, G), "grid points": (D, G + case["kg"] * cell)}.items():
                en = refit(Dn, w, Gn)
                sn = np.asarray(en.score_samples(Q.copy()))
                good = bool(np.all(np.abs(sn - s) <= tol))
                known = None
                if not good:
                    # classifier K4: the relation holds once the periodic covariance uses the correct circular mean
                    a = refit(D, w, G, cov_ref=True)
                    b = refit(Dn, w, Gn, cov_ref=True)
                    sa, sb = np.asarray(a.score_samples(Q.copy())), np.asarray(b.score_samples(Q.copy()))
                    if np.all(np.abs(sa - sb) <= 1e-6 * (1 + np.abs(sa))):
                        known = "K4"
                j.ok(f"log-density unchanged by shifting {lab} by whole cells", good, lambda: {"max_diff": float(np.abs(sn - s).max())}, known)
                rel += 1
        j.note("relation_pairs", rel)
    j.nontrivial = rel > 0
    j.sample = {"n": n, "dim": d, "cloud": case["kind"], "grid": f"{case['grid_kind']} x{len(G)}", "periodic": cell is not None, "localisation": case["loc"], "grid_weights": [round(float(v), 4) for v in (pr.assign["grid_weight"][:6] if pr.assign else [])], "min_bandwidth_eig": float(min(np.linalg.eigvalsh((h + h.T) / 2).min() for h in H)), "log_density": [float(v) for v in s[:3]], "oas_coefficients_applied": [round(o[0], 3) for o in pr.oas[:6]], "oas_raw_formula": [round(o[3], 3) for o in pr.oas[:6]], "local_population_calls": pr.calls, "fp_events_in_fit": dict((str(k), v) for k, v in list(pr.fp.summary().items())[:4])}
