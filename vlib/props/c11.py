"""C11 - StandardFlexibleScaler standardises w.r.t. the weighted training distribution.

Monitor: mean_, scale_, transform / inverse_transform outputs of fitted scalers on
training and new data, on paired (shifted / rescaled / row-replicated) inputs.
Oracle: explicitly computed weighted moments, np.repeat, sklearn StandardScaler.
"""

from __future__ import annotations

import numpy as np

from .. import forms, gens
from ..common import Skip, brief

ID = "C11"
CASES = {"quick": 4000, "thorough": 50000}
FLOOR = {"quick": 3500, "thorough": 45000}
FLOOR_COUNTERS = {
    "quick": {"weights_in_other_units": 600, "rejected_calls_in_the_history": 2000, "numpy_scalar_parameters": 500, "fits_judged": 3500, "replication_pairs": 700, "rejections_judged": 3000, "zero_weight_fits": 300, "estimators_with_a_past": 5000, "block_boundary_sizes": 60, "fits_through_fit_transform": 900, "configured_not_by_constructor": 1500, "non_default_containers": 1500},
    "thorough": {"weights_in_other_units": 7000, "rejected_calls_in_the_history": 25000, "numpy_scalar_parameters": 6000, "fits_judged": 45000, "replication_pairs": 9000, "rejections_judged": 40000, "zero_weight_fits": 4000, "estimators_with_a_past": 60000, "block_boundary_sizes": 800, "fits_through_fit_transform": 12000, "configured_not_by_constructor": 20000, "non_default_containers": 20000},
}
RULE = (
    "case = X (n>=2, 1-10 columns, column scales 1e-3..1e3, offsets up to 1e3), the 8 with_mean/with_std/column_wise "
    "combinations, weights None/uniform/random/integer multiplicities/integer with zeros (30%: handed over in another unit, 2^-70..2^49), new data; relations: weighted "
    "moments of the transformed data, inverse round trip, integer weights == row replication, StandardScaler, shift and "
    "rescaling invariance, tolerance-based rejection just below / acceptance 10x above; in 40% of the cases every scaler has a "
    "past (weighted fit on other data with the same number of rows, other flags, then set_params). non-trivial = weighted or "
    "non-default flags; distinct by data+config hash."
)
ASSUMPTIONS = [
    "moment tolerance 1e-9 scaled by (|mean|+std)/std (cancellation when offsets dwarf the spread)",
    "rescaling invariance is judged with atol=0 so that the rescaled variance is not rejected",
]
RULE = RULE + " " + forms.RULE_SUFFIX
RULE = RULE + " " + 'Half of the weighted fits: the caller overwrites its weight array after fit.'


def gen(rng, tier, index):
    n = int(rng.integers(2, 40))
    m = int(rng.integers(1, 11))
    edge = index % 40 == 3  # sizes on both sides of the powers of two an implementation might block by
    if edge:
        n = int(gens.pick(rng, (255, 256, 257, 1023, 1024, 1025, 2047, 2048, 2049, 4097)))
        m = int(rng.integers(1, 4))
    X = rng.normal(size=(n, m)) * 10.0 ** rng.uniform(-3, 3, size=m) + rng.normal(size=m) * 10.0 ** rng.uniform(-1, 3, size=m) * (rng.random(m) < 0.7)
    if edge and rng.random() < 0.7:
        X[-1] = X[-1] + 30.0 * X.std(axis=0) * rng.choice([-1.0, 1.0], size=m)  # the last row matters
    if rng.random() < 0.25:  # offsets far above the spread (exactly representable shifts)
        X = X + np.round(rng.normal(size=m) * 10.0 ** rng.uniform(4, 8))
    flags = index % 8
    wk = gens.pick(rng, ("none", "uniform", "random", "integer", "integer0"))
    w = gens.weights(rng, n, wk)
    if n == 2 and w is not None:
        w = np.maximum(w, 1.0)
    return {
        "X": X,
        "w": w,
        "wkind": wk,
        "with_mean": bool(flags & 1),
        "with_std": bool(flags & 2),
        "column_wise": bool(flags & 4),
        "Z": rng.normal(size=(int(rng.integers(1, 8)), m)) * np.abs(X).max(axis=0),
        "shift": rng.normal(size=m) * np.abs(X).max(axis=0),
        "c": float(gens.pick(rng, (-1.0, 1.0)) * 10.0 ** rng.uniform(-2, 2)),
        "edge": bool(edge),
        "via": gens.pick(rng, ("fit", "fit", "fit_transform")),
        "how": gens.pick(rng, forms.CONFIGURE),
        "xform": gens.pick(rng, forms.PRESENT),
        "carry": gens.pick(rng, forms.CARRY),
        "reject": bool(rng.random() < 0.4),
        "npscalars": bool(rng.random() < 0.3),
        "past": bool(rng.random() < 0.4),  # the scaler object has been fitted before (other data, weights, flags)
        "pseed": int(rng.integers(1 << 30)),
        "wunit": float(2.0 ** int(rng.integers(-70, 50))) if rng.random() < 0.3 else 1.0,
    }


def _wmoments(T, w):
    w = np.ones(len(T)) if w is None else np.asarray(w, float)
    w = w / w.sum()
    mu = (w[:, None] * T).sum(axis=0)
    var = (w[:, None] * (T - mu) ** 2).sum(axis=0)
    return mu, var


def run(case, j):
    from sklearn.preprocessing import StandardScaler

    from skmatter.preprocessing import StandardFlexibleScaler as SFS

    X, w, Z = case["X"], case["w"], case["Z"]
    # the weights the library sees: the same distribution in another unit (an exact power of two: unnormalised Boltzmann
    # factors are tiny, counts are huge); the oracle keeps the plain ones - only ratios of weights matter
    wl = None if w is None else w * float(case.get("wunit", 1.0))
    if wl is not None and case.get("wunit", 1.0) != 1.0:
        j.note("weights_in_other_units")
    wm, ws, cw = case["with_mean"], case["with_std"], case["column_wise"]
    n, m = X.shape
    j.tag(f"flags:mean={wm},std={ws},colwise={cw}", f"weights:{case['wkind']}")
    mu0, var0 = _wmoments(X, w)
    if np.any(var0 < 1e-20 * (1 + mu0**2)) or (w is not None and (np.asarray(w) > 0).sum() < 2):
        raise Skip("degenerate-variance")
    if (cw and np.any(var0 < 1e-10)) or (not cw and var0.sum() < 1e-10):
        raise Skip("variance-within-100x-of-the-default-atol")  # the documented rejection may legitimately fire
    kw = dict(with_mean=wm, with_std=ws, column_wise=cw)

    def scaler(label="", **more):
        """A fresh scaler, or one with a past: fitted on other data with the same number of rows (weighted, other
        flags and tolerances), then re-configured with set_params."""
        if not case.get("past"):
            pr_ = dict(kw, **more)
            return forms.configure(SFS, forms.numpy_scalars(pr_) if case.get("npscalars") else pr_, case.get("how", "ctor"))
        pr = np.random.default_rng(case["pseed"] + len(label))
        e = SFS(with_mean=bool(pr.random() < 0.7), with_std=bool(pr.random() < 0.7), column_wise=bool(pr.random() < 0.5), atol=0.0, rtol=0.0)
        n0 = n if pr.random() < 0.8 else int(pr.integers(2, 30))
        m0 = m if pr.random() < 0.6 else int(pr.integers(1, 12))
        X0 = pr.normal(size=(n0, m0)) * 10.0 ** pr.uniform(-2, 2, size=m0) + pr.normal(size=m0) * 10.0 ** pr.uniform(-1, 2)
        w0 = pr.uniform(0.05, 3.0, size=n0) if pr.random() < 0.8 else None
        if X0.shape == X.shape:
            X0 = forms.sibling_or(X, (X0 - X0.mean(axis=0)) / np.where(X0.std(axis=0) > 0, X0.std(axis=0), 1.0), 1.0) if n0 > 1 else X0  # every other time a sibling of X: same shape, column means and norms
        j.lib("fit:decoy" + label, e.fit, X0, sample_weight=w0)
        j.lib("transform:decoy" + label, e.transform, X0[:1])
        j.lib("set_params", e.set_params, **{"atol": 1e-12, "rtol": 0.0, **kw, **more})
        j.note("estimators_with_a_past")
        return e

    est = scaler()
    Xin = forms.present(X, case.get("xform", "C"))
    via = case.get("via", "fit")

    def enter(e, A, **kws):
        """fit through the entry point of the case: fit(...) or fit_transform(...) (what a Pipeline step gets)"""
        return e.fit(A, **kws) if via == "fit" else (e.fit_transform(A, **kws), e)[1]

    if case.get("edge"):
        j.note("block_boundary_sizes")
    if case.get("npscalars") and not case.get("past"):
        j.note("numpy_scalar_parameters")
    if case.get("how", "ctor") != "ctor":
        j.note("configured_not_by_constructor")
    if case.get("xform", "C") != "C":
        j.note("non_default_containers")
    wfit = None if wl is None else wl.copy()
    if via == "fit_transform":
        Tft = np.asarray(j.lib("fit_transform", est.fit_transform, Xin, sample_weight=wfit))
        j.note("fits_through_fit_transform")
    else:
        j.lib("fit", est.fit, Xin, sample_weight=wfit)
    if wfit is not None and case["pseed"] % 2 == 0:
        wfit[...] = np.random.default_rng(case["pseed"]).uniform(0.05, 20.0, size=wfit.shape) * float(case.get("wunit", 1.0))  # the caller re-uses its weight array
        j.note("caller_weights_overwritten_after_fit")
    j.note("fits_judged")
    est = forms.carry(est, case.get("carry", "same"), j)  # what transforms afterwards may be a copy of what was fitted
    if case.get("reject"):
        # a failure in the history: a refit with weights of the wrong length is refused; the fitted scaler stays what it was
        forms.rejected(j, "refit with sample weights of another length", est.fit, X, sample_weight=np.ones(n + 3))
        forms.rejected(j, "refit with 2-D sample weights", est.fit, X, sample_weight=np.ones((n, 2)))
    if w is not None and np.any(np.asarray(w) == 0):
        j.note("zero_weight_fits")
    T = np.asarray(est.transform(X))
    if via == "fit_transform":
        j.close("fit_transform(X) == transform(X) of the scaler it fitted", Tft, T, 1e-12 * (np.abs(T) + 1))
    sd0 = np.sqrt(var0)
    amp = (np.abs(mu0) + sd0) / sd0  # cancellation amplification per column
    mu, var = _wmoments(T, w)
    s = np.sqrt(var0) if cw else np.sqrt(var0.sum())
    if wm:
        scale = s if ws else 1.0
        j.close("weighted column means of the transformed data vanish", mu * scale / sd0, 0 * mu, 1e-9 * amp)
        j.close("mean_ == weighted column means", est.mean_, mu0, 1e-12 * (np.abs(mu0) + sd0))
    else:
        j.close("mean_ == 0 when centring is off", est.mean_, np.zeros(m), 0.0)
    if ws:
        if cw:
            j.close("weighted variance of every transformed column == 1", var, np.ones(m), 1e-9 * amp)
        else:
            j.close("weighted variances of the transformed columns sum to 1", var.sum(), 1.0, 1e-9 * amp.max())
        j.close("scale_ == weighted standard deviation", np.broadcast_to(est.scale_, s.shape if cw else ()), s, 1e-9 * s * (amp if cw else amp.max()))
    else:
        j.ok("scale_ == 1 when scaling is off", np.all(np.asarray(est.scale_) == 1.0), est.scale_)
    # round trips
    tolX = 1e-9 * (np.abs(X).max(axis=0) + np.abs(mu0) + sd0)
    j.close("inverse_transform(transform(X)) == X", est.inverse_transform(T), X, tolX)
    TZ = est.transform(Z)
    j.close("inverse_transform(transform(Z)) == Z on new data", est.inverse_transform(TZ), Z, 1e-9 * (np.abs(Z).max(axis=0) + np.abs(mu0) + sd0))
    want_TZ = (Z - (mu0 if wm else 0.0)) / (s if ws else 1.0)
    j.close("transform(Z) == (Z - weighted mean) / weighted scale", TZ, want_TZ, 1e-9 * (np.abs(want_TZ) + amp))
    # integer weights == replication
    if case["wkind"] in ("integer", "integer0"):
        rep = np.repeat(X, np.asarray(w, int), axis=0)
        if len(rep) >= 2:
            e2 = scaler('rep').fit(rep)
            j.close("integer weights == repeating rows: mean_", est.mean_, e2.mean_, 1e-10 * (np.abs(mu0) + sd0))
            j.close("integer weights == repeating rows: scale_", np.asarray(est.scale_, float), np.asarray(e2.scale_, float), 1e-9 * np.asarray(s) * (amp if cw else amp.max()))
            j.note("replication_pairs")
    # StandardScaler
    if w is None and cw:
        ss = StandardScaler(with_mean=wm, with_std=ws).fit(X)
        j.close("unweighted column-wise mode == StandardScaler", T, ss.transform(X), 1e-9 * (np.abs(T) + amp))
        j.note("standardscaler_pairs")
    # invariances
    if wm:
        e3 = scaler('shift').fit(X + case["shift"], sample_weight=None if wl is None else wl.copy())
        T3 = e3.transform(X + case["shift"])
        amp3 = (np.abs(mu0 + case["shift"]) + sd0) / sd0
        rel3 = 1e-9 + 200 * np.finfo(float).eps * float(max(amp.max(), amp3.max()))
        j.close("transformed data unchanged by a prior shift of the input", T3, T, rel3 * (np.abs(T) + amp + amp3) * (1 if ws else np.abs(X).max() + np.abs(case["shift"]).max() + 1))
    if ws:
        c = case["c"]
        e4 = scaler('scale', atol=0.0).fit(c * X, sample_weight=None if wl is None else wl.copy())
        T4 = e4.transform(c * X)
        # two independent fits: the scale carries a relative rounding error of about eps x (offset / spread)
        rel = 1e-9 + 200 * np.finfo(float).eps * float(amp.max())
        j.close("transformed data unchanged, up to the sign of c, by a prior uniform rescaling", T4, np.sign(c) * T, rel * (np.abs(T) + amp))
    # tolerance
    v = var0 if cw else np.array([var0.sum()])
    ref = np.abs(mu0) if cw else np.array([abs(np.average(mu0))])
    if ws:
        i = int(np.argmin(v))
        for mode in ("atol", "rtol"):
            if mode == "rtol" and ref[i] <= 0:
                continue
            hi = {"atol": v[i] * 10} if mode == "atol" else {"atol": 0.0, "rtol": v[i] * 10 / ref[i]}
            lo = {"atol": v[i] / 10} if mode == "atol" else {"atol": 0.0, "rtol": v[i] / 10 / ref[i]}
            if not cw and mode == "rtol":
                pass
            try:
                enter(scaler('hi', **hi), X, sample_weight=None if wl is None else wl.copy())
                j.ok(f"variance below the {mode} tolerance is rejected", False, {"var": v[i], "tol": hi})
            except ValueError:
                j.ok(f"variance below the {mode} tolerance is rejected", True)
            try:
                enter(scaler('lo', **lo), X, sample_weight=None if wl is None else wl.copy())
                j.ok(f"variance 10x above the {mode} tolerance is accepted", True)
            except ValueError as e:
                # in column-wise mode another column may legitimately fall below its own rtol threshold
                others = cw and mode == "rtol" and np.any(var0 < lo["rtol"] * np.abs(mu0))
                if not others:
                    j.ok(f"variance 10x above the {mode} tolerance is accepted", False, {"var": v[i], "tol": lo, "err": str(e)})
            j.note("rejections_judged", 2)
    j.nontrivial = w is not None or not (wm and ws and not cw)
    j.sample = {
        "X": str(X.shape),
        "flags": kw,
        "weights": case["wkind"],
        "mean_": [float(x) for x in np.atleast_1d(est.mean_)[:4]],
        "scale_": [float(x) for x in np.atleast_1d(est.scale_)[:4]],
        "weighted_var_of_transformed": [float(x) for x in var[:4]],
    }
