"""C12 - kernel centring and normalisation equal centring and scaling in feature space.

Monitor: transformed train-train / test-train kernels and fitted attributes of
KernelNormalizer and SparseKernelCenterer.
Oracle: explicit random feature maps, centred and scaled directly in feature space.
"""

from __future__ import annotations

import numpy as np

from .. import forms, gens
from ..common import Skip, brief

ID = "C12"
CASES = {"quick": 4000, "thorough": 50000}
FLOOR = {"quick": 3500, "thorough": 45000}
FLOOR_COUNTERS = {
    "quick": {"caller_weights_overwritten_after_fit": 800, "refits_on_the_same_array_objects_with_new_contents": 600, "tiny_magnitude_kernels": 180, "normalizer_fits": 1800, "sparse_fits": 1800, "test_kernels_judged": 3500, "weighted_fits": 2000, "estimators_with_a_past": 2500, "fewer_samples_than_active_points": 200, "in_place_entry_points": 3000, "non_default_containers": 1500, "tiny_magnitude_weights": 400, "more_than_2048_samples": 60, "rejected_calls_in_the_history": 1200, "aliased_kernel_arguments": 150},
    "thorough": {"caller_weights_overwritten_after_fit": 10000, "refits_on_the_same_array_objects_with_new_contents": 7000, "tiny_magnitude_kernels": 2300, "normalizer_fits": 22000, "sparse_fits": 22000, "test_kernels_judged": 45000, "weighted_fits": 25000, "estimators_with_a_past": 30000, "fewer_samples_than_active_points": 2500, "in_place_entry_points": 40000, "non_default_containers": 20000, "tiny_magnitude_weights": 5000, "more_than_2048_samples": 800, "rejected_calls_in_the_history": 15000, "aliased_kernel_arguments": 2000},
}
RULE = (
    "case = explicit features F (n 2-30, f 1-8, offset so that centring matters), test features (1-40 rows), weights "
    "None/uniform/random/integer, the 4 with_center/with_trace combinations; even indices judge KernelNormalizer, odd indices "
    "SparseKernelCenterer with an active set of any size (training rows or arbitrary points; 15%: fewer training samples than "
    "independent active points); 40% of the estimators have a past (weighted fit on another kernel of the same size, other flags, "
    "then set_params; when the sizes agree the judged fit receives the very array objects of that earlier fit, overwritten with the new kernels). non-trivial = weighted or "
    "test size != n; distinct by data+config hash."
)
ASSUMPTIONS = [
    "K = F F^T with explicit F, so the feature-space result is computed directly",
    "tolerance 1e-9 x kernel magnitude (offsets make centring a cancellation)",
    "trace scaling degenerate (centred trace ~ 0) cases are skipped",
]
RULE = RULE + " " + forms.RULE_SUFFIX
RULE = RULE + " " + 'Half of the weighted fits: the caller overwrites its weight array after fit.'


def gen(rng, tier, index):
    n = int(rng.integers(2, 31))
    f = int(rng.integers(1, 9))
    nt = int(rng.integers(1, 41))
    off = rng.normal(size=f) * float(gens.pick(rng, (0.0, 1.0, 10.0)))
    F = rng.normal(size=(n, f)) * 10.0 ** rng.uniform(-1, 1, size=f) + off
    Ft = rng.normal(size=(nt, f)) * 10.0 ** rng.uniform(-1, 1, size=f) + off
    if rng.random() < 0.3:  # features in small / large units (exact powers of two)
        u = float(2.0 ** int(rng.integers(-26, 12)))
        F, Ft, off = F * u, Ft * u, off * u
    many = index % 50 == 9  # more samples than an implementation would process in one block (2048, 4096)
    if many:
        n = int(gens.pick(rng, (2049, 2700, 4097, 4500)))
        f = int(rng.integers(2, 5))
        nt = int(rng.integers(1, 6))
        off = rng.normal(size=f) * float(gens.pick(rng, (0.0, 1.0, 10.0)))
        F = rng.normal(size=(n, f)) * 10.0 ** rng.uniform(-1, 1, size=f) + off
        F = F[np.argsort(np.linalg.norm(F - F.mean(axis=0), axis=1))]  # ordered data: the last rows are the outliers
        Ft = rng.normal(size=(nt, f)) * 10.0 ** rng.uniform(-1, 1, size=f) + off
    wk = gens.pick(rng, ("none", "uniform", "random", "integer"))
    M = int(rng.integers(1, max(2, min(n, 12)) + 1))
    few = rng.random() < 0.15  # fewer training samples than (independent) active points
    if few:
        n = int(rng.integers(2, 7))
        f = int(rng.integers(n + 1, n + 9))
        off = rng.normal(size=f) * float(gens.pick(rng, (0.0, 1.0, 10.0)))
        F = rng.normal(size=(n, f)) * 10.0 ** rng.uniform(-1, 1, size=f) + off
        Ft = rng.normal(size=(nt, f)) * 10.0 ** rng.uniform(-1, 1, size=f) + off
        M = int(rng.integers(n + 1, n + 10))
    if rng.random() < 0.5 and not few:
        Fa = F[rng.permutation(n)[: min(M, n)]].copy() if rng.random() < 0.5 else F[: min(M, n)].copy()
    else:
        Fa = rng.normal(size=(M, f)) * float(np.abs(F - off).std() or 1.0) + off
    return {
        "F": F,
        "Ft": Ft,
        "Fa": Fa,
        "w": gens.weights(rng, n, wk),
        "wunit": float(2.0 ** -int(rng.integers(25, 60))) if rng.random() < 0.2 else 1.0,  # weights of tiny magnitude (Boltzmann factors)
        "many": bool(many),
        "wkind": wk,
        "with_center": bool((index // 2) % 2),
        "with_trace": bool((index // 4) % 2),
        "sparse": bool(index % 2) or bool(many),
        "few": bool(few),
        "xform": gens.pick(rng, forms.PRESENT),
        "carry": gens.pick(rng, forms.CARRY),
        "reject": bool(rng.random() < 0.4),
        "alias": bool(rng.random() < 0.5),
        "past": bool(rng.random() < 0.4),  # the estimator has been fitted before (other kernel, weights, flags)
        "pseed": int(rng.integers(1 << 30)),
    }


def _norm_w(w, n):
    return np.full(n, 1.0 / n) if w is None else np.asarray(w, float) / np.sum(w)


def _with_a_past(j, case, cls, n, m, label="", buffers=None):
    """An estimator that was fitted before on another kernel of the same size (weighted, other flags) and then
    re-configured with set_params; only the arguments of the coming fit may matter afterwards."""
    wc, wt = case["with_center"], case["with_trace"]
    if not case.get("past"):
        return cls(with_center=wc, with_trace=wt)
    pr = np.random.default_rng(case["pseed"] + len(label))
    est = cls(with_center=bool(pr.random() < 0.7), with_trace=bool(pr.random() < 0.7))
    f0 = int(pr.integers(max(2, m), m + 6))
    n0 = n if pr.random() < 0.8 else int(pr.integers(2, 20))
    F0 = pr.normal(size=(n0, f0)) * 10.0 ** pr.uniform(-2, 2) + pr.normal(size=f0)
    w0 = pr.uniform(0.05, 3.0, size=n0) if pr.random() < 0.8 else None
    if cls.__name__ == "KernelNormalizer":
        K0 = F0 @ F0.T
        j.lib("fit:decoy" + label, est.fit, K0, sample_weight=w0)
        j.lib("transform:decoy" + label, est.transform, F0[: max(1, n0 // 2)] @ F0.T)
        if buffers is not None and n0 == n:
            buffers.append(K0)  # the caller keeps one kernel buffer and fills it with the next kernel
    else:
        A0 = pr.normal(size=(m, f0)) * float(np.abs(F0).std()) + F0.mean(axis=0)
        K0nm, K0mm = F0 @ A0.T, A0 @ A0.T
        j.lib("fit:decoy" + label, est.fit, K0nm, K0mm, sample_weight=w0)
        j.lib("transform:decoy" + label, est.transform, F0[: max(1, n0 // 2)] @ A0.T)
        if buffers is not None and n0 == n:
            buffers.extend([K0nm, K0mm])
    if hasattr(est, "set_params"):
        j.lib("set_params", est.set_params, with_center=wc, with_trace=wt)
    else:  # SparseKernelCenterer is a plain TransformerMixin: its parameters are public attributes
        est.with_center, est.with_trace = wc, wt
    j.note("estimators_with_a_past")
    return est


def _run_normalizer(case, j):
    from skmatter.preprocessing import KernelNormalizer

    F, Ft, w = case["F"], case["Ft"], case["w"]
    wc, wt = case["with_center"], case["with_trace"]
    n = len(F)
    K, Kt = F @ F.T, Ft @ F.T
    wn = _norm_w(w, n)
    mu = wn @ F if wc else np.zeros(F.shape[1])
    Fc, Ftc = F - mu, Ft - mu
    tr = np.trace(Fc @ Fc.T) / n
    mag = max(float(np.abs(K).max()), float(np.abs(Kt).max()), 1e-300)
    if wt and tr <= 1e-9 * mag:
        raise Skip("centred-trace-vanishes")
    s = tr if wt else 1.0
    bufs = []
    est = _with_a_past(j, case, KernelNormalizer, n, n, buffers=bufs)
    sw = None if w is None else w.copy()
    Kin = K.copy()
    if bufs and bufs[0].shape == K.shape:  # the very array object of the earlier fit, holding the new kernel now
        Kin = bufs[0]
        Kin[...] = K
        j.note("refits_on_the_same_array_objects_with_new_contents")
    j.lib("fit", est.fit, Kin, sample_weight=sw)
    if sw is not None and case.get("pseed", 0) % 2 == 0:
        # the caller re-uses its weight array for something else: the fitted normaliser has kept what it needs
        sw[...] = np.random.default_rng(case.get("pseed", 0)).uniform(0.05, 20.0, size=sw.shape)
        j.note("caller_weights_overwritten_after_fit")
    est = forms.carry(est, case.get("carry", "same"), j)
    if case.get("reject"):
        # a failure in the history: refits with unusable weights are refused; the fitted normaliser stays what it was
        forms.rejected(j, "refit with sample weights of another length", est.fit, K.copy(), sample_weight=np.ones(n + 2))
        forms.rejected(j, "refit with 2-D sample weights", est.fit, K.copy(), sample_weight=np.ones((n, 2)))
    j.note("normalizer_fits")
    tol = 1e-9 * mag / s
    Tk = np.asarray(est.transform(K.copy()))
    j.close("train-train kernel -> Gram matrix of centred, scaled features", Tk, Fc @ Fc.T / s, tol)
    Tt = np.asarray(est.transform(Kt.copy()))
    j.close("test-train kernel -> centred by the weighted TRAINING mean, same scale", Tt, Ftc @ Fc.T / s, tol)
    j.note("test_kernels_judged")
    if wt:
        j.close("transformed training kernel has trace n", np.trace(Tk), float(n), 1e-8 * n * max(1.0, mag / s / max(np.trace(Tk) / n, 1e-300)))
    j.close("scale_ is the common scale", est.scale_, s, 1e-9 * max(mag, s))
    if not wc:
        j.close("centring off: K_fit_rows_ == 0", est.K_fit_rows_, np.zeros(n), 0.0)
        j.close("centring off: transform only divides by the scale", Tk, K / s, tol)
    if not wt:
        j.ok("trace scaling off: scale_ == 1", est.scale_ == 1.0, est.scale_)
    est2 = _with_a_past(j, case, KernelNormalizer, n, n, "2")
    T2 = est2.fit_transform(K.copy(), sample_weight=None if w is None else w.copy())
    j.close("fit_transform == fit followed by transform", T2, Tk, 1e-12 * mag / s)
    # the in-place entry points: the caller gives the kernel away (copy=False); what comes back is still the right kernel
    est3 = _with_a_past(j, case, KernelNormalizer, n, n, "33")
    T3 = np.asarray(est3.fit_transform(K.copy(), sample_weight=None if w is None else w.copy(), copy=False))
    j.close("fit_transform(copy=False) returns the same centred, scaled kernel", T3, Fc @ Fc.T / s, tol)
    T4 = np.asarray(est.transform(Kt.copy(), copy=False))
    j.close("transform(copy=False) returns the same test kernel", T4, Ftc @ Fc.T / s, tol)
    j.note("in_place_entry_points", 2)
    # the same numbers in other containers
    form = case.get("xform", "C")
    if form != "C":
        est5 = KernelNormalizer(with_center=wc, with_trace=wt).fit(forms.present(K, form), sample_weight=None if w is None else w.copy())
        j.close("result independent of the container the kernel arrives in", est5.transform(forms.present(Kt, form)), Ftc @ Fc.T / s, tol)
        j.note("non_default_containers")
    return {"scale_": float(est.scale_), "trace_after": float(np.trace(Tk))}


def _run_sparse(case, j):
    from skmatter.preprocessing import SparseKernelCenterer

    F, Ft, Fa, w = case["F"], case["Ft"], case["Fa"], case["w"]
    wc, wt = case["with_center"], case["with_trace"]
    n = len(F)
    Knm, Kmm, Ktm = F @ Fa.T, Fa @ Fa.T, Ft @ Fa.T
    wn = _norm_w(w, n)
    rows = wn @ Knm if wc else np.zeros(Knm.shape[1])
    Kc = Knm - rows
    Pm = np.linalg.pinv(Kmm, rcond=1e-10)
    tr = float(np.einsum("ij,ij->", Kc @ Pm, Kc)) / n
    mag = max(float(np.abs(Knm).max()), 1e-300)
    ev = np.linalg.eigvalsh(Kmm)
    if np.any((ev > 1e-13 * ev[-1]) & (ev < 1e-8 * ev[-1])):
        raise Skip("active-kernel-spectrum-near-rcond")
    if wt and tr <= 1e-9 * max(float(np.einsum("ij,ij->", Knm @ Pm, Knm)) / n, 1e-300):
        raise Skip("centred-nystrom-trace-vanishes")
    s = np.sqrt(tr) if wt else 1.0
    bufs = []
    swS = None if w is None else w.copy()
    est = _with_a_past(j, case, SparseKernelCenterer, n, len(Fa), buffers=bufs)
    if case.get("alias") and len(Fa) <= n and np.array_equal(F[: len(Fa)], Fa):
        # the two kernels are views of ONE kernel matrix (the active points are the first training points)
        Kfull = F @ F.T
        Kn_, Km_ = Kfull[:, : len(Fa)], Kfull[: len(Fa), : len(Fa)]
        j.lib("fit", est.fit, Kn_, Km_, sample_weight=swS)
        j.ok("kernels passed as views of one matrix are what they were", np.array_equal(Kfull, F @ F.T))
        j.note("aliased_kernel_arguments")
    elif bufs and bufs[0].shape == Knm.shape and bufs[1].shape == Kmm.shape:
        # the very array objects of the earlier fit, holding the new kernels now (pre-allocated buffers)
        bufs[0][...] = Knm
        bufs[1][...] = Kmm
        j.lib("fit", est.fit, bufs[0], bufs[1], sample_weight=swS)
        j.note("refits_on_the_same_array_objects_with_new_contents")
    else:
        j.lib("fit", est.fit, Knm.copy(), Kmm.copy(), sample_weight=swS)
    if swS is not None and case.get("pseed", 0) % 2 == 0:
        swS[...] = np.random.default_rng(case.get("pseed", 0)).uniform(0.05, 20.0, size=swS.shape)  # the caller re-uses its weight array
        j.note("caller_weights_overwritten_after_fit")
    j.note("sparse_fits")
    est = forms.carry(est, case.get("carry", "same"), j)
    T = np.asarray(est.transform(Knm.copy()))
    tol = 1e-9 * mag / s
    j.close("transformed training block == (K_nm - weighted column means) / scale", T, Kc / s, tol)
    if wc:
        j.close("weighted column means of the transformed training block vanish", wn @ T, np.zeros(T.shape[1]), tol)
    if wt:
        j.close("centred Nystrom kernel has trace n", float(np.einsum("ij,ij->", T @ Pm, T)), float(n), 1e-7 * n)
    Tt = np.asarray(est.transform(Ktm.copy()))
    j.close("test block uses the training means and scale", Tt, (Ktm - rows) / s, 1e-9 * max(float(np.abs(Ktm).max()), mag) / s)
    j.note("test_kernels_judged")
    if not wc:
        j.close("centring off: only divided by the scale", T, Knm / s, tol)
    if not wt:
        j.ok("trace scaling off: scale_ == 1", est.scale_ == 1.0, est.scale_)
    est2 = _with_a_past(j, case, SparseKernelCenterer, n, len(Fa), "2")
    T2 = est2.fit_transform(Knm.copy(), Kmm.copy(), sample_weight=None if w is None else w.copy())
    j.close("fit_transform == fit followed by transform", T2, T, 1e-10 * mag / s)
    form = case.get("xform", "C")
    if form == "list":
        form = "C"  # documented for numpy arrays only (no input validation: a list has no .shape)
    if form != "C":
        est5 = SparseKernelCenterer(with_center=wc, with_trace=wt).fit(forms.present(Knm, form), forms.present(Kmm, form), sample_weight=None if w is None else w.copy())
        j.close("result independent of the container the kernels arrive in", est5.transform(forms.present(Ktm, form)), (Ktm - rows) / s, 1e-9 * max(float(np.abs(Ktm).max()), mag) / s)
        j.note("non_default_containers")
    return {"scale_": float(est.scale_), "n_active": int(len(Fa))}


def run(case, j):
    if case.get("w") is not None and case.get("wunit", 1.0) != 1.0:
        case = dict(case, w=np.asarray(case["w"], dtype=float) * case["wunit"])
        j.note("tiny_magnitude_weights")
    if case.get("many"):
        j.note("more_than_2048_samples")
    if float(np.abs(case["F"]).max()) < 1e-4:
        j.note("tiny_magnitude_kernels")
    if case.get("few") and case["sparse"]:
        j.note("fewer_samples_than_active_points")
    j.tag("sparse" if case["sparse"] else "normalizer", f"center={case['with_center']},trace={case['with_trace']}", f"weights:{case['wkind']}")
    if case["w"] is not None:
        j.note("weighted_fits")
    info = _run_sparse(case, j) if case["sparse"] else _run_normalizer(case, j)
    j.nontrivial = case["w"] is not None or len(case["Ft"]) != len(case["F"])
    j.sample = {"class": "SparseKernelCenterer" if case["sparse"] else "KernelNormalizer", "n": len(case["F"]), "n_test": len(case["Ft"]), "features": case["F"].shape[1], "weights": case["wkind"], "with_center": case["with_center"], "with_trace": case["with_trace"], **info}
