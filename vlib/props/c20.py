"""C20 - prediction rigidities follow their closed form and scaling laws.

Monitor: the returned LPR / CPR / LCPR lists and rank_diff of paired calls (rescaled
features, increasing alpha, single component, single-environment structures); FP trap.
Oracle: closed form through np.linalg.solve on independently assembled matrices.
"""

from __future__ import annotations

import numpy as np

from .. import forms, gens, rt
from ..common import Skip, brief

ID = "C20"
CASES = {"quick": 3000, "thorough": 40000}
FLOOR = {"quick": 2500, "thorough": 35000}
FLOOR_COUNTERS = {
    "quick": {"training_environments_regrouped_into_as_many_structures": 60, "tiny_regulariser_cases": 150, "lpr_values_judged": 20000, "cpr_values_judged": 8000, "rank_deficient_cases": 250, "single_env_structures": 1500, "containers_reused_with_other_contents": 700, "block3d_inputs": 700, "integer_typed_structures": 800, "features_absent_from_the_training_set": 200, "alpha_given_as_a_shared_array": 800, "rejected_calls_in_the_history": 900},
    "thorough": {"training_environments_regrouped_into_as_many_structures": 900, "tiny_regulariser_cases": 2000, "lpr_values_judged": 280000, "cpr_values_judged": 110000, "rank_deficient_cases": 3500, "single_env_structures": 20000, "containers_reused_with_other_contents": 10000, "block3d_inputs": 10000, "integer_typed_structures": 11000, "features_absent_from_the_training_set": 3000, "alpha_given_as_a_shared_array": 10000, "rejected_calls_in_the_history": 12000},
}
RULE = (
    "case = 1-15 training and 1-8 test structures of 1-8 environments (incl. single-environment structures), feature "
    "dimension 2-10, alpha over 1e-8..1e3 (plus a rank-deficient class: fewer structures than features with alpha=1e-300 for "
    "rank_diff), 1-4 components incl. width-1 blocks; argument forms: fresh lists | one list per side re-used for every call with its "
    "contents replaced / rescaled in place | 3-D blocks | 3-D blocks with the test structures a view of the training block; float64 or "
    "integer-typed structures; 1 in 8: the test set is made of the training environments (identical, or re-cut into as many / another number of structures). non-trivial = several components or single-environment structures; "
    "distinct by data hash."
)
RULE = RULE + " " + "One case in 6: the training set's global scale factor is within 1e-5 of one (1 -+ 1e-7 .. 8e-6)."
ASSUMPTIONS = [
    "values judged when cond(S^T S + alpha I) <= 1e10 and the masked test vector is not numerically null; rank_diff judged when the spectrum is clean",
    "tolerance 1e-7 relative (the code goes through pinv, the oracle through solve)",
]


def gen(rng, tier, index):
    d = int(rng.integers(2, 11))
    deficient = bool(index % 10 == 0)
    nearsing = bool(index % 10 == 1)  # fewer structures than features and a tiny regulariser
    ntr = int(rng.integers(1, d)) if (deficient or nearsing) else int(rng.integers(1, 16))
    nte = int(rng.integers(1, 9))
    off = rng.normal(size=d) * float(gens.pick(rng, (0.0, 1.0)))

    form = gens.pick(rng, ("fresh", "fresh", "reused", "reused", "block3d", "block3d_shared"))
    e_fixed = int(gens.pick(rng, (1, 2, 3, 5))) if form.startswith("block3d") else None
    dts = [gens.pick(rng, ("float64", "float64", "float64", "int64", "int32")) for _ in range(2)]

    def strucs(k, dt="float64"):
        out = [rng.normal(size=(e_fixed or int(gens.pick(rng, (1, 1, 2, 3, 5, 8))), d)) * 10.0 ** rng.uniform(-0.5, 0.5, size=d) + off for _ in range(k)]
        return out if dt == "float64" else [np.round(x * 64).astype(dt) for x in out]

    ncomp = int(rng.integers(1, min(4, d) + 1))
    cuts = np.sort(rng.choice(np.arange(1, d), size=ncomp - 1, replace=False)) if ncomp > 1 else np.array([], int)
    comp_dims = np.diff(np.concatenate([[0], cuts, [d]])).astype(int)
    Xtr = strucs(ntr, dts[0])
    unseen = bool(rng.random() < 0.12) and not (deficient or nearsing)
    if unseen:  # a feature (the descriptor block of a species, say) that the training set never populates
        col = int(rng.integers(d))
        for x in Xtr:
            x[:, col] = 0
    Xte = [x.copy() for x in Xtr[: min(nte, ntr)]] if form == "block3d_shared" else strucs(nte, dts[1])
    nearly_normalised = False
    if index % 6 == 4 and dts == ["float64", "float64"] and form != "block3d_shared":
        # features that arrive almost, but not exactly, normalised (the global scale factor of the training set is
        # 1 -+ 1e-7 .. 8e-6, e.g. normalised in single precision): they are still divided by that factor
        s_ = float(np.sqrt(np.mean(np.vstack(Xtr) ** 2, axis=0).sum()))
        if s_ > 0:
            g_ = (1.0 + (8e-6, -6e-6, 2e-6, -8e-6, 1e-7, -4e-6)[(index // 6) % 6]) / s_
            Xtr = [x * g_ for x in Xtr]
            Xte = [x * g_ for x in Xte]
            nearly_normalised = True
    regrouped = None
    if form in ("fresh", "reused") and ntr >= 2 and rng.random() < 0.2:
        # the test set is made of the training environments themselves, in the same order: the same structures, the
        # same environments cut into the same number of differently sized structures, or into another number of them
        allenv = np.vstack([np.asarray(x) for x in Xtr])
        if len(allenv) > ntr:
            regrouped = gens.pick(rng, ("same_count", "same_count", "identical", "other_count"))
            if regrouped == "identical":
                Xte = [np.array(x, copy=True) for x in Xtr]
            else:
                kk = ntr if regrouped == "same_count" else int(rng.integers(1, min(len(allenv), 9) + 1))
                cuts_ = np.sort(rng.choice(np.arange(1, len(allenv)), size=kk - 1, replace=False))
                Xte = [np.array(a, copy=True) for a in np.split(allenv, cuts_)]
            dts[1] = dts[0]
    return {
        "Xtr": Xtr,
        "Xte": Xte,
        "regrouped": regrouped,
        "nearly_normalised": nearly_normalised,
        "form": form,
        "unseen": bool(unseen),
        "alpha_array": gens.pick(rng, (None, None, None, "0d", "1d")),
        "reject": bool(rng.random() < 0.4),
        "dtypes": dts,
        "decoy": [strucs(ntr), strucs(len(Xte))],
        "alpha": 1e-300 if deficient else (float(10.0 ** rng.uniform(-11.5, -9.0)) if nearsing else float(10.0 ** rng.uniform(-8, 3))),
        "alpha2": float(10.0 ** rng.uniform(0.1, 2)),
        "comp_dims": comp_dims,
        "c": float(10.0 ** rng.uniform(-2, 2)),
        "deficient": deficient,
    }


class _Args:
    """The containers handed to the library, in the form the case prescribes.

    fresh          : new lists of new arrays for every call
    reused         : ONE training list and ONE test list for all calls of the case; their contents are replaced or
                     edited in place between calls (first life: decoy structures)
    block3d        : equally sized structures as one 3-D array per side, the same two arrays for every call
    block3d_shared : as block3d, and the test structures are a view of the first training structures
    """

    def __init__(self, case, j):
        self.form = case.get("form", "fresh")
        self.Xtr, self.Xte = case["Xtr"], case["Xte"]
        self.j = j
        self.decoyed = False
        if self.form == "reused":
            self.tr = [x.copy() for x in case["decoy"][0]]
            self.te = [x.copy() for x in case["decoy"][1]]
        elif self.form.startswith("block3d"):
            self.tr = np.stack(self.Xtr)
            self.te = self.tr[: len(self.Xte)] if self.form == "block3d_shared" else np.stack(self.Xte)
            self.before = (self.tr.copy(), self.te.copy())

    def first_life(self, lpr_fn, cpr_fn, alpha, comp):
        if self.form == "reused":
            self.j.lib("lpr:decoy", lpr_fn, self.tr, self.te, alpha)
            self.j.lib("cpr:decoy", cpr_fn, self.tr, self.te, alpha, comp.copy())
            self.set(1.0)
            self.j.note("containers_reused_with_other_contents")

    def set(self, c):
        """put c x (the case's structures) into the re-used containers, in place"""
        if self.form == "reused":
            for i, x in enumerate(self.Xtr):
                self.tr[i] = x.copy() if c == 1.0 else c * x
            if c != 1.0 and all(x.dtype == float for x in self.Xte):
                for i, x in enumerate(self.Xte):  # the arrays themselves are rescaled in place
                    if self.te[i].shape != x.shape:
                        self.te[i] = x.copy()
                    else:
                        self.te[i][...] = x
                    self.te[i] *= c
            else:
                for i, x in enumerate(self.Xte):
                    self.te[i] = x.copy() if c == 1.0 else c * x

    def get(self, c=1.0):
        if self.form == "fresh":
            return [x.copy() if c == 1.0 else c * x for x in self.Xtr], [x.copy() if c == 1.0 else c * x for x in self.Xte]
        if self.form == "reused":
            self.set(c)
            return self.tr, self.te
        if c == 1.0:
            return self.tr, self.te
        tr = c * self.tr
        return tr, (tr[: len(self.Xte)] if self.form == "block3d_shared" else c * self.te)

    def unchanged(self):
        if self.form.startswith("block3d"):
            self.j.ok("3-D block inputs are what they were after the calls", np.array_equal(self.tr, self.before[0]) and np.array_equal(self.te, self.before[1]))


def _closed_form(Xtr, alpha):
    Xtr = [np.asarray(x, dtype=float) for x in Xtr]
    A = np.vstack(Xtr)
    s = np.sqrt((A**2).mean(axis=0).sum())
    S = np.vstack([x.mean(axis=0) for x in Xtr]) / s
    return s, S.T @ S + alpha * np.eye(S.shape[1])


def run(case, j):
    from skmatter.metrics import componentwise_prediction_rigidity as cpr_fn
    from skmatter.metrics import local_prediction_rigidity as lpr_fn

    Xtr, Xte, alpha, comp = case["Xtr"], case["Xte"], case["alpha"], case["comp_dims"]
    d = Xtr[0].shape[1]
    args = _Args(case, j)
    j.tag(f"form:{args.form}", "dtype:float64" if case.get("dtypes", ["float64"] * 2) == ["float64"] * 2 else "dtype:integer")
    if args.form.startswith("block3d"):
        j.note("block3d_inputs")
    if case.get("dtypes", ["float64"] * 2) != ["float64"] * 2:
        j.note("integer_typed_structures")
    if case.get("unseen"):
        j.note("features_absent_from_the_training_set")
    if case.get("nearly_normalised"):
        j.note("training_sets_with_a_scale_factor_within_1e-5_of_one")
    if case.get("regrouped"):
        j.note("test_sets_made_of_the_training_environments")
        if case["regrouped"] == "same_count":
            j.note("training_environments_regrouped_into_as_many_structures")
    alpha_value = alpha
    if case.get("alpha_array"):
        alpha = np.array([alpha_value])[0:1].reshape(()) if case["alpha_array"] == "0d" else np.array([alpha_value])  # ONE array object for every call
        j.note("alpha_given_as_a_shared_array")
    if case.get("reject"):
        # a failure in the history: a component-wise call whose test set contains a malformed structure (a single
        # environment handed over as a 1-D vector) is refused; the calls that follow know nothing of it
        bad_te = [np.asarray(x, dtype=float) for x in Xte] + [np.asarray(Xte[0], dtype=float)[0]]
        forms.rejected(j, "component-wise call with a malformed test structure", cpr_fn, [np.asarray(x, dtype=float) for x in Xtr], bad_te, alpha_value, comp.copy())
    args.first_life(lpr_fn, cpr_fn, alpha, comp)
    j.tag("rank-deficient" if case["deficient"] else ("tiny-regulariser" if case["alpha"] < 1e-8 else "regular"), f"components:{len(comp)}", f"dim:{d}")
    with rt.FPTrap() as fp:
        LPR, rd = j.lib("lpr", lpr_fn, *args.get(), alpha)
        CPR, LCPR, rd2 = j.lib("cpr", cpr_fn, *args.get(), alpha, comp.copy())
    Xte = [np.asarray(x, dtype=float) for x in Xte]
    s, M = _closed_form(Xtr, alpha_value)
    ev = np.linalg.eigvalsh(M)
    clean = bool(np.all((ev > 1e-8 * ev[-1]) | (ev < 1e-13 * ev[-1])))
    if clean:
        want_rd = d - int((ev > 1e-10 * ev[-1]).sum())
        j.ok("rank_diff == feature dimension - rank(regularised covariance)", rd == want_rd and rd2 == want_rd, (rd, rd2, want_rd))
    j.ok("one LPR entry per test structure, in input order", len(LPR) == len(Xte) and all(len(a) == len(x) for a, x in zip(LPR, Xte)), [len(a) for a in LPR])
    j.ok("one LCPR block per test structure with one row per environment", len(LCPR) == len(Xte) and all(np.shape(a) == (len(x), len(comp)) for a, x in zip(LCPR, Xte)), [np.shape(a) for a in LCPR])
    j.ok("CPR has shape (n_test_structures, n_components)", np.shape(CPR) == (len(Xte), len(comp)), np.shape(CPR))
    if case["deficient"]:
        j.note("rank_deficient_cases")
    cond = ev[-1] / max(ev[0], 1e-300)
    rtol = max(1e-7, 300 * np.finfo(float).eps * cond)  # solve / pinv lose about eps x cond
    if cond > 1e10:
        j.note("tiny_regulariser_cases")
    if cond > 3e12:
        j.skip("ill-conditioned-covariance(values not judged)")
    else:
        edges = np.concatenate([[0], np.cumsum(comp)])
        cpr_ok = np.zeros((len(Xte), len(comp)), bool)  # entries whose masked structure average is not (numerically) null
        null_block = False  # an exactly vanishing masked vector (whole-number data): the rigidity is 1/0 by definition
        for si, X in enumerate(Xte):
            xs = X / s
            q = np.einsum("ij,ij->i", xs, np.linalg.solve(M, xs.T).T)
            ok = q > 1e-12 * (xs**2).sum(axis=1) / ev[-1]
            want = 1.0 / q
            got = np.asarray(LPR[si])
            # an exactly vanishing environment vector (whole-number data) has rigidity 1/0 by definition
            j.ok("LPR strictly positive and finite", bool(np.all(np.isfinite(got[ok])) and np.all(got > 0)), got)
            null_block |= bool(np.any((xs**2).sum(axis=1) == 0))
            j.close("LPR == 1 / (x (S^T S + alpha I)^-1 x^T)", got[ok], want[ok], rtol * want[ok])
            j.note("lpr_values_judged", int(ok.sum()))
            xm = X.mean(axis=0) / s
            for ci in range(len(comp)):
                msk = np.zeros(d)
                msk[edges[ci] : edges[ci + 1]] = 1.0
                xc = xs * msk
                qc = np.einsum("ij,ij->i", xc, np.linalg.solve(M, xc.T).T)
                okc = qc > 1e-12 * np.maximum((xc**2).sum(axis=1), 1e-300) / ev[-1]
                gotc = np.asarray(LCPR[si])[:, ci]
                j.close("LCPR == closed form restricted to the component's block", gotc[okc], 1.0 / qc[okc], rtol / qc[okc])
                xmc = xm * msk
                qa = float(xmc @ np.linalg.solve(M, xmc))
                null_block |= bool(np.any((xc**2).sum(axis=1) == 0) or (xmc**2).sum() == 0)
                if qa > 1e-12 * max(float((xmc**2).sum()), 1e-300) / ev[-1]:
                    cpr_ok[si, ci] = True
                    j.close("CPR == closed form for the structure average", CPR[si, ci], 1.0 / qa, rtol / qa)
                    j.ok("CPR strictly positive and finite", np.isfinite(CPR[si, ci]) and CPR[si, ci] > 0, CPR[si, ci])
                    j.note("cpr_values_judged")
                if len(X) == 1 and okc[0]:
                    j.close("CPR of a one-environment structure == its LCPR", CPR[si, ci], gotc[0], 1e-9 * abs(gotc[0]))
                    j.note("single_env_structures")
        # relations
        c = case["c"]
        LPRc, _ = lpr_fn(*args.get(c), alpha)
        for a, b in zip(LPR, LPRc):
            j.close("LPR invariant under a common rescaling of all features", b, a, rtol * np.abs(a))
        CPRc, LCPRc, _ = cpr_fn(*args.get(c), alpha, comp.copy())
        j.close("CPR invariant under a common rescaling", CPRc[cpr_ok], CPR[cpr_ok], rtol * np.abs(CPR[cpr_ok]))
        a2 = alpha_value * case["alpha2"]
        LPR2, _ = lpr_fn(*args.get(), a2)
        for a, b in zip(LPR, LPR2):
            j.ok("LPR non-decreasing in alpha", bool(np.all(b >= a * (1 - 1e-9 - rtol))), (a, b))
        CPR2, LCPR2, _ = cpr_fn(*args.get(), a2, comp.copy())
        j.ok("CPR non-decreasing in alpha", bool(np.all(CPR2[cpr_ok] >= CPR[cpr_ok] * (1 - 1e-9 - rtol))))
        for a, b in zip(LCPR, LCPR2):
            j.ok("LCPR non-decreasing in alpha", bool(np.all(b >= a * (1 - 1e-9 - rtol))))
        _, LC1, _ = cpr_fn(*args.get(), alpha, np.array([d]))
        for a, b in zip(LPR, LC1):
            j.close("LCPR with a single component == LPR", np.asarray(b)[:, 0], a, (1e-9 + rtol * 1e-2) * np.abs(a))
        # the same containers once more, after all of the above: still the closed form
        LPRz, _ = lpr_fn(*args.get(), alpha)
        for a, b in zip(LPR, LPRz):
            j.close("LPR of the same arguments, asked again after other calls, is what it was", b, a, 1e-12 * np.abs(a))
        args.unchanged()
        if case.get("alpha_array"):
            j.ok("the array that holds alpha is what the caller made it", float(np.asarray(alpha).reshape(-1)[0]) == alpha_value, (float(np.asarray(alpha).reshape(-1)[0]), alpha_value))
        bad = fp.in_skmatter()
        if null_block:
            j.skip("fp-events-not-judged:a-masked-test-vector-is-exactly-null")
        else:
            j.ok("no invalid / divide-by-zero FP event inside skmatter on well-conditioned input", not bad, bad[:3])
    j.nontrivial = len(comp) > 1 or any(len(x) == 1 for x in Xte)
    j.sample = {"train_structures": [len(x) for x in Xtr], "test_structures": [len(x) for x in Xte], "dim": d, "alpha": alpha, "comp_dims": comp.tolist(), "rank_diff": int(rd), "LPR[0]": [float(v) for v in np.asarray(LPR[0])[:4]], "cond": float(cond)}
