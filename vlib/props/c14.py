"""C14 - PCovR's projectors form a consistent, nested, orthogonal decomposition.

Monitor: projector attributes (pxt_, ptx_, pty_, pxy_, components_) and
transform/inverse_transform/predict/score of fitted estimators for k and k+1;
captured matrix that the fit diagonalised.
Oracle: projector algebra recomputed from the public attributes, dense eigh of the
captured / independently assembled modified Gram matrix.
"""

from __future__ import annotations

import numpy as np

from .. import forms, gens, pc
from ..common import Skip, brief

ID = "C14"
CASES = {"quick": 3200, "thorough": 36000}
FLOOR = {"quick": 1600, "thorough": 20000}
FLOOR_COUNTERS = {"quick": {"earlier_data_with_the_same_shape_means_and_norms": 700, "scores_off_the_training_set": 2500, "uses_after_a_refused_refit": 200, "tolerance_given_as_a_shared_0d_array": 250, "more_than_4096_rows": 15, "caller_buffers_overwritten_after_fit": 300, "fits_through_fit_transform": 300, "configured_not_by_constructor": 300, "non_default_containers": 300, "fits_judged": 3500, "nested_pairs": 1200, "new_data_calls": 3000, "y1d_cases": 300, "default_n_components_fits": 100, "estimators_with_a_past": 500, "arpack_fits": 200}, "thorough": {"earlier_data_with_the_same_shape_means_and_norms": 8000, "scores_off_the_training_set": 28000, "uses_after_a_refused_refit": 2500, "tolerance_given_as_a_shared_0d_array": 3000, "more_than_4096_rows": 200, "caller_buffers_overwritten_after_fit": 4000, "fits_through_fit_transform": 4000, "configured_not_by_constructor": 4000, "non_default_containers": 4000, "fits_judged": 45000, "nested_pairs": 15000, "new_data_calls": 40000, "y1d_cases": 4000, "default_n_components_fits": 1200, "estimators_with_a_past": 6000, "arpack_fits": 2500}}
RULE = (
    "case = centred X, Y (1-D and 2-D), mixing in (0,1], space in {feature, sample}, regressor in the admissible set, "
    "k in [1, rank]; the fit for k and, when k+1 <= rank, for k+1 (full solver) are judged: projector algebra on training "
    "and new data, orthogonality of the latent coordinates, round trip, nestedness, losses non-increasing in k, score "
    "formula on the training set, on held-out data and for latent coordinates supplied by the caller, 1-D shapes. non-trivial = gap guard passed and k+1 fit compared; distinct by data+config hash."
)
ASSUMPTIONS = [
    "eigen-gap guard (relative gaps >= 1e-6 among lambda_1..lambda_{k+2}, lambda_{k+1}/lambda_1 >= 1e-8) else skipped",
    "mixing in (0,1] and centred data, as the property states",
    "tolerance 1e-6 relative",
]
RULE = RULE + " " + pc._routes_rule() + " One case in 40 adds a table of more than 4096 rows (the data stacked r times against the data times sqrt r)."
RULE = RULE + " " + 'One case in 6 adds fits for every k on a two-level factorial design (orthogonal, equal-norm columns: exactly tied eigenvalues), same arrays and configuration: both losses never increase with k.'


def gen(rng, tier, index):
    kind, X, Y = pc.data(rng, tier, kinds=("tall",)) if index % 40 == 7 else pc.data(rng, tier)
    reg = pc.gen_regressor(rng, X, Y)
    rank = int(np.linalg.matrix_rank(X))
    k = int(rng.integers(1, max(1, rank) + 1))
    nz = int(rng.integers(1, 9))
    return {
        "routes": pc.routes(rng),
        "many_rows": bool(index % 40 == 7),
        "X": X,
        "Y": Y,
        "kind": kind,
        "reg": reg,
        "mixing": float(gens.pick(rng, (0.05, 0.3, 0.5, 0.8, 0.95, 1.0))),
        "k": k,
        "space": gens.pick(rng, ("feature", "sample", "feature", "sample", "auto")),
        "defaults": bool(rng.random() < 0.15),  # n_components=None, svd_solver="auto"
        "tol_array": bool(rng.random() < 0.2),
        "failed_refit": bool(rng.random() < 0.35),
        "past": bool(rng.random() < 0.3),  # estimator object and input buffers re-used after an earlier fit
        "solver": gens.pick(rng, ("full", "full", "full", "arpack", "randomized")),
        "pseed": int(rng.integers(1 << 30)),
        "Z": rng.normal(size=(nz, X.shape[1])) * float(np.abs(X).max()),
    }


def _losses(est, X, Y):
    T = est.transform(X)
    lx = np.linalg.norm(X - est.inverse_transform(T)) ** 2 / np.linalg.norm(X) ** 2
    ly = np.linalg.norm(np.asarray(Y) - est.predict(T=T)) ** 2 / np.linalg.norm(Y) ** 2
    return float(lx), float(ly)


def run(case, j):
    pc.use_routes(j, case)
    X, Y, reg, a, k, space, Z = case["X"], case["Y"], case["reg"], case["mixing"], case["k"], case["space"], case["Z"]
    n, m = X.shape
    oned = np.ndim(Y) == 1
    j.tag(f"space:{space}", f"data:{case['kind']}", f"reg:{reg['kind']}", "y1d" if oned else "y2d")
    if not pc.x_guard(X):
        raise Skip("XtX-eigenvalue-near-tol-cut")
    if not pc.reg_guard(reg, X):
        raise Skip("regression-ill-conditioned(eps x cond above the tolerances)")
    Yh, W = pc.oracle_yhat(reg, X, Y)
    w = pc.spectrum(pc.ktilde(a, X, Yh))
    rank = int((w > 1e-10 * w[0]).sum())
    if case.get("defaults"):
        k = min(n, m)
        j.note("default_n_components_fits")
    two = k + 1 <= min(rank, min(n, m))
    if not pc.gap_guard(w, k + 1 if two else k):
        raise Skip("eigen-gap-guard")
    tol = 1e-6
    sT = float(np.sqrt(w[0]))
    Yfit, _ = pc.fit_args(reg, X, Y)  # targets as the estimator saw them
    ests = {}
    robj = pc.make_regressor(reg, abort=True)  # one regressor object shared by every fit of the case
    solver = case.get("solver", "full")
    tolobj = np.array(1e-12) if case.get("tol_array") else None
    with pc.Capture() as cap:
        for kk in ([k, k + 1] if two else [k]):
            past = np.random.default_rng(case["pseed"] + kk) if case.get("past") else None
            skw = {"svd_solver": "full"}
            if solver == "arpack" and kk < min(n, m):
                skw = {"svd_solver": "arpack", "random_state": 3}
                j.note("arpack_fits")
            elif solver == "randomized" and kk + 10 >= min(n, m + np.ndim(Y) + 3):
                skw = {"svd_solver": "randomized", "random_state": 3, "iterated_power": 30}
                j.note("randomized_fits")
            if tolobj is not None:
                skw = dict(skw, tol=tolobj)  # ONE array object holds the tolerance of every fit of the case
            if case.get("defaults"):
                ests[kk] = pc.fit_pcovr(j, "defaults", X, Y, reg, regressor_obj=robj, past=past, mixing=a, space=space, **({"tol": tolobj} if tolobj is not None else {}))
            else:
                ests[kk] = pc.fit_pcovr(j, f"k={kk}", X, Y, reg, regressor_obj=robj, past=past, mixing=a, n_components=kk, space=space, **skw)
    if tolobj is not None:
        j.ok("the array that holds the tolerance is what the caller made it (1e-12)", float(tolobj) == 1e-12, float(tolobj))
        j.note("tolerance_given_as_a_shared_0d_array")
    for kk, est in ests.items():
        j.note("fits_judged")
        T = np.asarray(est.transform(X))
        j.ok("transform returns n x k", T.shape == (n, kk), T.shape)
        j.close("transform(X) == X @ pxt_", T, X @ est.pxt_, tol * sT)
        TZ = np.asarray(est.transform(Z))
        j.close("transform(Z) == Z @ pxt_ on new data", TZ, Z @ est.pxt_, tol * max(float(np.abs(TZ).max()), sT))
        j.close("components_ == pxt_^T", est.components_, est.pxt_.T, 0.0)
        pz, pzt = np.asarray(est.predict(Z)), np.asarray(est.predict(T=TZ))
        sP = max(float(np.abs(pz).max()), 1e-300)
        j.close("predict(Z) == predict(T=transform(Z))", pz, pzt, tol * sP * 10)
        j.close("predict(X) == X @ pxy_", est.predict(X), X @ est.pxy_, tol * max(float(np.abs(Yh).max()), 1e-300))
        j.note("new_data_calls", 3)
        G = T.T @ T
        j.close("latent coordinates orthogonal with squared norms == retained eigenvalues", G, np.diag(w[:kk]), tol * w[0] * 10)
        if cap.ker or cap.cov:
            used = getattr(est, "space_", space)
            wc = pc.spectrum((cap.ker if used == "sample" and cap.ker else (cap.cov if cap.cov else cap.ker))[-1])  # last capture = the fit on the real data
            j.close("squared norms == eigenvalues of the captured matrix", np.diag(G), wc[:kk], tol * w[0] * 10)
        Tb = np.asarray(est.transform(est.inverse_transform(T)))
        j.close("transform(inverse_transform(T)) == T", Tb, T, tol * sT * 10)
        TZb = np.asarray(est.transform(est.inverse_transform(TZ)))
        j.close("round trip is idempotent for new latent points", TZb, TZ, tol * max(float(np.abs(TZ).max()), sT) * 10)
        lx, ly = _losses(est, X, Yfit)
        sc = float(est.score(X, Yfit))
        j.close("score == -(relative X loss + relative Y loss)", sc, -(lx + ly), 1e-9 * max(1.0, lx + ly))
        # the same definition on data that were not in the fit (a held-out set, a cross-validation fold) and for latent
        # coordinates supplied by the caller: there the residuals are not orthogonal to the reconstructions
        zr = np.random.default_rng(case["pseed"] + 77 + kk)
        Yz = zr.normal(size=(len(Z),) + np.shape(Yfit)[1:]) * max(float(np.abs(np.asarray(Yfit, dtype=float)).std()), 1e-300)
        if float(np.linalg.norm(Z)) > 0 and float(np.linalg.norm(Yz)) > 0:
            xz, yz = np.asarray(est.inverse_transform(TZ)), np.asarray(est.predict(T=TZ)).reshape(np.shape(Yz))
            want = -(np.linalg.norm(Z - xz) ** 2 / np.linalg.norm(Z) ** 2 + np.linalg.norm(Yz - yz) ** 2 / np.linalg.norm(Yz) ** 2)
            j.close("score(held-out Z, Y_Z) == -(relative X loss + relative Y loss) of the held-out set", float(est.score(Z, Yz)), want, 1e-9 * max(1.0, abs(want)))
            Tu = T + 0.3 * sT * zr.normal(size=T.shape)
            xu, yu = np.asarray(est.inverse_transform(Tu)), np.asarray(est.predict(T=Tu)).reshape(np.shape(Yfit))
            wantu = -(np.linalg.norm(X - xu) ** 2 / np.linalg.norm(X) ** 2 + np.linalg.norm(np.asarray(Yfit) - yu) ** 2 / np.linalg.norm(Yfit) ** 2)
            j.close("score(X, Y, T=latent coordinates of the caller) == the same two losses for those coordinates", float(est.score(X, Yfit, T=Tu)), wantu, 1e-9 * max(1.0, abs(wantu)))
            j.note("scores_off_the_training_set")
        if oned:
            j.ok("1-D y: predictions are 1-D", np.ndim(est.predict(X)) == 1 and np.ndim(est.predict(T=T)) == 1, (np.shape(est.predict(X)), np.shape(est.predict(T=T))))
            j.ok("1-D y: pxy_ and pty_ are vectors", np.ndim(est.pxy_) == 1 and np.ndim(est.pty_) == 1 and est.pxy_.shape == (m,) and est.pty_.shape == (kk,), (np.shape(est.pxy_), np.shape(est.pty_)))
            j.note("y1d_cases")
        else:
            j.ok("2-D y: prediction shape", np.shape(est.predict(X)) == np.shape(Y), (np.shape(est.predict(X)), np.shape(Y)))
    # ---- a refit that is refused late (precomputed targets with weights for another number of targets) must not leave
    #      the object with projectors of two different fits
    if case.get("failed_refit"):
        for kk, est in ests.items():
            if getattr(est, "space_", None) != "sample":
                continue
            Yh2 = np.asarray(Yh, dtype=float).reshape(n, -1)
            saved = est.regressor
            est.regressor = "precomputed"
            est.mixing = 0.9 if a != 0.9 else 0.6
            got = forms.rejected(j, "refit with weights for another number of targets", est.fit, X * 1.5, Yh2, W=np.ones((m, Yh2.shape[1] + 2)))
            est.regressor, est.mixing = saved, a
            if got is None:
                continue
            T = np.asarray(est.transform(X))
            sT_ = max(float(np.abs(T).max()), 1e-300)
            j.close("after a refused refit: transform(inverse_transform(T)) == T still", np.asarray(est.transform(est.inverse_transform(T))), T, tol * sT_ * 10)
            pa, pb = np.asarray(est.predict(X)), np.asarray(est.predict(T=T))
            j.close("after a refused refit: predict(X) == predict(T=transform(X)) still", pa, pb.reshape(pa.shape), tol * max(float(np.abs(pa).max()), 1e-300) * 10)
            j.note("uses_after_a_refused_refit")
    if case["pseed"] % 6 == 0:
        # ---- an orthogonal design (two-level factorial: mutually orthogonal columns of equal norm), so that the
        # modified Gram matrix has an exactly repeated eigenvalue: which basis of the tied space is kept is open, but
        # with the full solver it is the same for every k (one decomposition, truncated), so on the SAME arrays and
        # the same configuration the losses still never increase with k
        import itertools

        from sklearn.linear_model import Ridge as _Ridge

        from skmatter.decomposition import PCovR as _PCovR

        zr = np.random.default_rng(case["pseed"])
        Fd = np.array(list(itertools.product([-1.0, 1.0], repeat=4)))
        Xd = np.c_[Fd, Fd[:, 0] * Fd[:, 1], Fd[:, 2] * Fd[:, 3], Fd[:, 0] * Fd[:, 2]][:, zr.permutation(7)[: int(zr.integers(4, 8))]]
        bd = np.zeros((Xd.shape[1], 2))
        bd[zr.permutation(Xd.shape[1])[:3], 0] = [2.0, -1.0, 0.5]
        bd[zr.permutation(Xd.shape[1])[:3], 1] = [1.0, 1.0, -2.0]
        Yd = Xd @ bd + 0.2 * zr.normal(size=(16, 2))
        Yd = Yd - Yd.mean(axis=0)
        for sp_ in ("sample", "feature"):
            a_ = float((1.0, 0.5, 0.8)[case["pseed"] // 6 % 3])
            prev = None
            for kk_ in range(1, Xd.shape[1] + 1):
                e_ = _PCovR(mixing=a_, n_components=kk_, space=sp_, svd_solver="full", regressor=_Ridge(alpha=1e-6, fit_intercept=False))
                j.lib(f"fit:orthogonal design k={kk_}", e_.fit, Xd, Yd)
                cur = _losses(e_, Xd, Yd)
                if prev is not None:
                    j.ok("orthogonal design (tied eigenvalues): training reconstruction loss does not increase with k", cur[0] <= prev[0] + 1e-9, {"k": kk_, "space": sp_, "mixing": a_, "losses": (prev, cur)})
                    j.ok("orthogonal design (tied eigenvalues): training regression loss does not increase with k", cur[1] <= prev[1] + 1e-9 * max(1.0, prev[1]), {"k": kk_, "space": sp_, "mixing": a_, "losses": (prev, cur)})
                prev = cur
        j.note("orthogonal_designs_with_tied_eigenvalues")
    if two:
        e1, e2 = ests[k], ests[k + 1]
        T1, T2 = e1.transform(X), e2.transform(X)
        sg = np.sign((np.asarray(T1) * np.asarray(T2)[:, :k]).sum(axis=0))
        sg[sg == 0] = 1.0  # eigenvectors are defined up to sign; two fits reached through different routes may differ in it
        j.close("components for k are the first k of those for k+1 (up to sign)", T1, np.asarray(T2)[:, :k] * sg, tol * sT * 10)
        j.close("pxt_ nested (up to sign)", e1.pxt_, e2.pxt_[:, :k] * sg, tol * max(float(np.abs(e2.pxt_).max()), 1e-300) * 10)
        l1, l2 = _losses(e1, X, Yfit), _losses(e2, X, Yfit)
        j.ok("training reconstruction loss does not increase with k", l2[0] <= l1[0] + 1e-9, (l1, l2))
        j.ok("training regression loss does not increase with k", l2[1] <= l1[1] + 1e-9 * max(1.0, l1[1]), (l1, l2))
        j.note("nested_pairs")
    if case.get("many_rows") and not case.get("defaults"):
        pc.many_rows_relation(j, X, Y, reg, a, k)
    j.nontrivial = two
    e = ests[k]
    j.sample = {
        "X": f"{X.shape} {case['kind']}",
        "Y": str(np.shape(Y)),
        "space": space,
        "mixing": a,
        "k": k,
        "regressor": reg["kind"],
        "eigenvalues": [float(v) for v in w[: k + 1]],
        "TtT_diag": [float(v) for v in np.diag(e.transform(X).T @ e.transform(X))],
        "losses(k)": _losses(e, X, Yfit),
    }
