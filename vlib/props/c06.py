"""C06 - Voronoi FPS is an exact accelerator: it selects what plain FPS selects.

Monitor: GreedyTrace on VoronoiFPS - for every commit the size of the active set
returned by the pruning rule, which branch ran, a copy of the distance table *after*
the step; injected clocks (M6) drive the wall-clock calibration of the switching point
to every outcome it can have.
Oracle: brute-force min-distance table in lock-step; plain sample FPS; tie-aware.
"""

from __future__ import annotations

import numpy as np

from .. import forms, gens, rt, sel
from ..common import Skip, brief

ID = "C06"
CASES = {"quick": 2400, "thorough": 30000}
FLOOR = {"quick": 1800, "thorough": 22000}
FLOOR_COUNTERS = {
    "quick": {"switching_point_changed_between_links": 800, "steps_judged": 80000, "sparse_steps_pruned": 10000, "sparse_steps_pruned_low_switch": 50, "clock_scripted_fits": 3000, "steered_clock_reached_target": 800, "warm_links": 500, "estimators_with_a_past": 2500, "small_unit_cases": 120, "configured_not_by_constructor": 3000, "non_default_containers": 3000, "carried_by:deepcopy": 150, "carried_by:pickle": 150, "more_than_2048_points": 5, "unreached_thresholds_set": 3000},
    "thorough": {"switching_point_changed_between_links": 10000, "steps_judged": 600000, "sparse_steps_pruned": 80000, "clock_scripted_fits": 15000, "steered_clock_reached_target": 4000, "warm_links": 3000, "estimators_with_a_past": 30000, "small_unit_cases": 1500, "configured_not_by_constructor": 40000, "non_default_containers": 40000, "carried_by:deepcopy": 2000, "carried_by:pickle": 2000, "more_than_2048_points": 70, "unreached_thresholds_set": 40000},
}
RULE = (
    "case = point set (uniform / strongly clustered / duplicated / integer lattice / gauss), start int|'random', request "
    "int|float|None, optional warm chain; the same input is fitted under 5-6 switching-point settings drawn from explicit "
    "full_fraction {1e-9,.01,.1,.5,.99,1} and the default calibrated under scripted clocks {zero, monotone walk, backward "
    "steps, alternating huge/tiny, steered to targets 0/.05/.3/.7/1, real}, n_trial_calculation {1,2,4,7}. After every "
    "step the traced table is compared with the brute-force one. Every setting is configured by constructor | set_params | "
    "attribute assignment, fed C | Fortran | strided | read-only | list input, and continues a warm chain on the same object | its "
    "deep copy | its unpickled copy; one case in 400 has 2049-4500 points. non-trivial = a step ran on the pruned (sparse) branch "
    "with a strictly smaller active set; distinct by hash of data+settings."
)
ASSUMPTIONS = [
    "tolerance 1e-9 x max(|D|, largest squared norm)",
    "scheduler effects on the calibration are represented by injected clocks (every bisection outcome is reachable by the steered clock) plus the real clock",
    "steps after numerical exhaustion of the candidates are not judged (known finding K2 of C01)",
]
RULE = RULE + " " + forms.RULE_SUFFIX
RULE = RULE + " " + 'Two-link chains with an explicit switching point: the first link runs with another one (1e-6 / 1.0 / 0.5); a cold refit with an illegal switching point is refused between links.'

KINDS = ("clustered", "clustered", "clustered", "uniform", "gauss", "dup_rows", "lattice")
EXPLICIT = (1e-9, 0.01, 0.1, 0.5, 0.99, 1.0)
CLOCKS = ("zero", "walk", "backwards", "alternate", "steer", "steer", "real")
TARGETS = (0.0, 0.05, 0.3, 0.7, 1.0)


def gen(rng, tier, index):
    hi = 50 if tier == "quick" else 140
    n = int(rng.integers(4, hi))
    m = int(rng.integers(2, 6))
    kind = gens.pick(rng, KINDS)
    big = rng.random() < 0.1  # large sets so that the pruned branch also runs at low switching points
    if big:
        n = int(rng.integers(120, 400))
        kind = gens.pick(rng, ("clustered", "clustered", "uniform"))
    huge = index % 400 == 7  # more points than any internal block / buffer size one might think of (2048, 4096)
    if huge:
        big = True
        n = int(gens.pick(rng, (2049, 2050, 2300, 4097, 4500)))
        m = int(rng.integers(2, 4))
        kind = gens.pick(rng, ("clustered", "uniform"))
    X = gens.matrix(rng, n, m, kind)
    if kind == "clustered" and rng.random() < 0.5:
        X = X + 100.0 * rng.normal(size=m)  # far from the origin: norms >> distances
    unit = 1.0
    if rng.random() < 0.25:  # the same cloud in small / large units (exact power of two)
        unit = float(2.0 ** int(rng.integers(-26, 14)))
        X = X * unit
    kw = {}
    if rng.random() < 0.7:
        kw["initialize"] = int(rng.integers(n))
        if rng.random() < 0.2:
            kw["initialize"] -= n  # the same sample, counted from the end
    else:
        kw["initialize"] = "random"
        kw["random_state"] = int(rng.integers(1000))
    r = rng.random()
    e = int(rng.integers(2, (7 if huge else (30 if big else n)) + 1))
    if r < 0.6 or big:
        nts = e
    elif r < 0.85:
        nts = 1.0 if e == n else float((e + 0.5) / n)
    else:
        nts, e = None, n // 2
    chain = [nts]
    if rng.random() < 0.3 and e >= 3:
        e0 = int(rng.integers(1, e))
        chain = [e0, nts]
    settings = []
    for _ in range(3 if huge else (5 if tier == "quick" else 6)):
        if rng.random() < 0.5:
            settings.append({"full_fraction": float(gens.pick(rng, EXPLICIT))})
            if len(chain) > 1:
                # the switching point is changed between two links of a warm chain (from a value that never prunes to
                # one that does, or the other way round): whatever it is, every link selects what FPS selects
                settings[-1]["ff_first_link"] = float(gens.pick(rng, (1e-6, 1e-6, 1.0, 0.5)))
        else:
            s = {"full_fraction": None, "clock": gens.pick(rng, CLOCKS), "n_trial_calculation": int(gens.pick(rng, (1, 2, 4, 7))), "clock_seed": int(rng.integers(1 << 30))}
            if s["clock"] == "steer":
                s["target"] = float(gens.pick(rng, TARGETS))
            settings.append(s)
    if huge:
        settings[0] = {"full_fraction": 1.0}
    for s_ in settings:  # the same configuration through another public route, the same numbers in another container,
        s_["how"] = gens.pick(rng, forms.CONFIGURE)  # the object replaced by its copy between two links of the chain
        s_["xform"] = gens.pick(rng, forms.PRESENT)
        s_["carry"] = gens.pick(rng, forms.CARRY)
        s_["clobber"] = bool(rng.random() < 0.5)
        s_["reject"] = bool(rng.random() < 0.5)
        # a score threshold that is never reached changes nothing (the docstring's own example sets 1e-12)
        s_["threshold"] = gens.pick(rng, (None, None, ("relative", 1e-12), ("relative", 1e-9), ("absolute", 0.0))) if kind not in ("dup_rows", "lattice") else None  # (on duplicated points an exhausted search does reach it)
    past = None
    if rng.random() < 0.3:  # the estimator objects were fitted before, on another cloud of the same shape
        past = forms.sibling_or(X, rng.normal(size=X.shape), unit * float(10.0 ** rng.uniform(-1, 1)))
    return {"X": X, "kind": kind, "kw": kw, "chain": chain, "settings": settings, "unit": unit, "past": past, "huge": bool(huge)}


def _fit_voronoi(case, setting, j):
    import skmatter.sample_selection._voronoi_fps as vmod

    X = case["X"]
    kw = dict(case["kw"])
    kw["full_fraction"] = setting["full_fraction"]
    if "n_trial_calculation" in setting:
        kw["n_trial_calculation"] = setting["n_trial_calculation"]
    spec = {"dir": "sample", "cls": "VoronoiFPS", "kw": kw, "how": setting.get("how", "ctor"), "xform": setting.get("xform", "C"), "clobber": setting.get("clobber", False)}
    if spec["how"] != "ctor":
        j.note("configured_not_by_constructor")
    if spec["xform"] != "C":
        j.note("non_default_containers")
    est = sel.make(spec)
    thr = setting.get("threshold")
    if thr and thr[0] == "relative" and thr[1] * 100 >= case.get("_min_over_max_dist2", 0.0):
        thr = None  # selecting (nearly) everything of a tightly clustered cloud does reach such a threshold
    if thr:
        est.score_threshold_type, est.score_threshold = thr[0], float(thr[1])
        j.note("unreached_thresholds_set")
    if case.get("past") is not None:
        est.n_to_select = max(2, min(len(X), sel.resolve_n(case["chain"][-1], len(X))))
        j.lib("fit:earlier-history", est.fit, case["past"])
        if setting["full_fraction"] is None:
            est.full_fraction = None  # the calibrated value was written into the parameter (known finding K3 of C09)
        j.note("estimators_with_a_past")
    tr = rt.GreedyTrace(est)
    clock = None
    if setting.get("clock") and setting["clock"] != "real":
        clock = rt.ScriptedClock(setting["clock"], np.random.default_rng(setting["clock_seed"]), est=est, target=setting.get("target"))
    for li, nts in enumerate(case["chain"]):
        if li > 0 and setting.get("reject") and int(getattr(est, "n_selected_", 0)) >= 2:
            # a failure in the history: a warm start asking for fewer selections than were made is refused, then corrected
            est.n_to_select = int(est.n_selected_) - 1
            forms.rejected(j, "shrinking warm start", sel.fit, est, X, None, spec, warm=True)
            # ... and a cold refit refused for an illegal switching point: the fit made before it stands
            ff_ = est.full_fraction
            est.full_fraction = (2.0, -0.5, "half")[li % 3]
            forms.rejected(j, "cold refit with an illegal switching point", sel.fit, est, X, None, spec)
            est.full_fraction = ff_
        if li > 0 and setting.get("carry", "same") != "same":
            # the chain continues on a deep copy / an unpickled copy of the fitted object
            tr.detach()
            est = j.lib("carry", forms.carry, est, setting["carry"], j)
            tr.attach(est)
            if clock is not None:
                clock.est = est
        est.n_to_select = nts
        if setting.get("ff_first_link") is not None and setting.get("full_fraction") is not None:
            est.full_fraction = setting["ff_first_link"] if li == 0 else setting["full_fraction"]
            if li > 0:
                j.note("switching_point_changed_between_links")
        if clock is not None:
            with rt.patched(vmod, "time", clock):
                j.lib("fit", sel.fit, est, X, None, spec, warm=li > 0)
        else:
            j.lib("fit", sel.fit, est, X, None, spec, warm=li > 0)
        if li > 0:
            j.note("warm_links")
    if clock is not None:
        j.note("clock_scripted_fits")
        j.note(f"clock:{setting['clock']}")
        if clock.calls == 0:
            j.note("clock_never_read")
    return est, tr, clock


def run(case, j):
    X = case["X"]
    n = X.shape[0]
    j.tag(f"data:{case['kind']}", f"chain:{len(case['chain'])}", f"request:{type(case['chain'][-1]).__name__}", "unit:1" if case.get("unit", 1.0) == 1.0 else ("unit:small" if case["unit"] < 1 else "unit:large"))
    if case.get("unit", 1.0) < 1e-4:
        j.note("small_unit_cases")
    if case.get("huge"):
        j.note("more_than_2048_points")
    spec0 = {"dir": "sample", "cls": "FPS", "kw": {}}
    D = sel.fps_distance_matrix(spec0, X, None)
    off = D[~np.eye(n, dtype=bool)]
    case["_min_over_max_dist2"] = float(off.min() / max(off.max(), 1e-300)) if off.size else 0.0
    scale = max(float(D.max()), float((X**2).sum(axis=1).max()), 1e-300)
    tol = 1e-11 * scale
    E = sel.resolve_n(case["chain"][-1], n)

    # plain FPS from the same start (reference implementation, itself judged by C02)
    fkw = dict(case["kw"])
    fkw["n_to_select"] = E
    fps = sel.make({"dir": "sample", "cls": "FPS", "kw": fkw})
    j.lib("fit:plainFPS", fps.fit, X)
    seq_fps = [int(v) for v in fps.selected_idx_]

    seqs = []
    tie_free = True
    pruned_steps = 0
    fractions = []
    for setting in case["settings"]:
        est, tr, clock = _fit_voronoi(case, setting, j)
        seq = [e["idx"] for e in tr.commits()]
        idx = [int(v) for v in est.selected_idx_]
        j.ok("selected_idx_ == traced commits", idx == seq, (idx, seq))
        j.ok("number of selections == request", len(seq) == E, (len(seq), E))
        ff = est.full_fraction
        if setting["full_fraction"] is None:
            # whether the scripted clock steered the calibration where it wanted is a fact about the
            # monitor (how many switching points were exercised), not about the property: recorded, not judged
            if ff is not None and 0 <= ff <= 1:
                j.note(f"calibrated_ff_bucket:{0 if not ff else int(np.ceil(ff * 4))}")
                if setting.get("clock") == "steer" and abs(ff - min(setting["target"], 0.9921875)) <= 0.011:
                    j.note("steered_clock_reached_target")
            else:
                j.note("calibrated_switching_point_not_observable")
        commits = tr.commits()
        exhausted_at = None
        for t, ev in enumerate(commits):
            S = seq[:t]
            p = seq[t]
            if t >= 1:
                md = sel.hausdorff(D, S)
                un = np.setdiff1d(np.arange(n), S)
                best = md[un].max() if len(un) else 0.0
                if best <= 1e-12 * scale:
                    exhausted_at = t
                    j.note("exhausted_fits")
                    break
                j.ok(
                    "pick is a farthest candidate",
                    p not in S and md[p] >= best - tol,
                    lambda: {"step": t, "picked": p, "d": float(md[p]), "best": float(best), "setting": setting},
                )
                if int((md[un] >= best - tol).sum()) > 1:
                    tie_free = False
                    j.note("ties_at_pick")
            truth = sel.hausdorff(D, seq[: t + 1])
            tab = ev.get("table")
            if tab is not None:
                ok = j.close(
                    "table after step == brute-force min distances (nothing wrongly pruned)",
                    tab,
                    truth,
                    tol,
                    lambda: {"step": t, "active": ev.get("active"), "dense": ev.get("dense"), "setting": setting},
                )
            j.note("steps_judged")
            a = ev.get("active")
            if a is not None:
                fractions.append(a / n)
                if ev.get("dense") is False:
                    j.note("sparse_steps")
                    if a < n and est.full_fraction < 0.06:
                        j.note("sparse_steps_pruned_low_switch")
                    if a < n:
                        j.note("sparse_steps_pruned")
                        pruned_steps += 1
                elif ev.get("dense"):
                    j.note("dense_steps")
        upto = exhausted_at if exhausted_at is not None else len(seq)
        # final public tables
        if exhausted_at is None:
            j.close("get_distance() == brute-force table", est.get_distance(), sel.hausdorff(D, seq), tol)
            sd = np.asarray(est.get_select_distance(), dtype=float)
            want = np.array([np.inf] + [sel.hausdorff(D, seq[:t])[seq[t]] for t in range(1, len(seq))])
            j.close("get_select_distance() == true minima", sd, want, tol)
        # versus plain FPS
        for t in range(min(upto, len(seq_fps))):
            if seq[t] != seq_fps[t]:
                md = sel.hausdorff(D, seq[:t]) if t else None
                good = False
                if md is not None:
                    un = np.setdiff1d(np.arange(n), seq[:t])
                    best = md[un].max()
                    good = md[seq[t]] >= best - tol and md[seq_fps[t]] >= best - tol
                j.ok("differs from plain FPS only at a tie", good, {"step": t, "voronoi": seq[t], "fps": seq_fps[t], "setting": setting})
                j.note("divergence_from_fps_at_tie")
                break
        else:
            j.ok("same selection as plain FPS", True)
        seqs.append((seq[:upto], setting))
    if tie_free and seqs:
        L = min(len(s) for s, _ in seqs)
        same = all(s[:L] == seqs[0][0][:L] for s, _ in seqs)
        j.ok("selection independent of switching point / timing (tie-free data)", same, lambda: [(s, st) for s, st in seqs])
    j.nontrivial = pruned_steps > 0
    fr = np.array(fractions) if fractions else np.zeros(1)
    j.note("active_fraction_lt_0.25", int((fr < 0.25).sum()))
    j.note("active_fraction_lt_0.5", int((fr < 0.5).sum()))
    j.note("active_fraction_all", int(len(fr)))
    j.sample = {
        "X": f"{X.shape} {case['kind']}",
        "kw": brief(case["kw"]),
        "chain": case["chain"],
        "settings": brief(case["settings"]),
        "sequence": seqs[0][0][:12] if seqs else None,
        "plain_fps": seq_fps[:12],
        "pruned_sparse_steps": pruned_steps,
        "median_active_fraction": float(np.median(fr)),
    }
