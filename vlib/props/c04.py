"""C04 - PCovR interpolates optimally and monotonically between PCA and regression.

Monitor: public transform / inverse_transform / predict of fits over a mixing grid.
Oracle: sklearn PCA (mixing=1), LinearRegression (mixing=0), the closed-form optimum
tr K~ - sum of the top-k eigenvalues (Ky Fan) and explicit competitor subspaces for
the mixed objective, monotonicity of the two training losses along the grid.
"""

from __future__ import annotations

import numpy as np

from .. import gens, pc
from ..common import Skip, brief

ID = "C04"
CASES = {"quick": 900, "thorough": 10000}
FLOOR = {"quick": 700, "thorough": 8000}
FLOOR_COUNTERS = {
    "quick": {"mixings_within_1e-5_of_one_on_tied_directions": 300, "earlier_data_with_the_same_shape_means_and_norms": 500, "more_than_4096_rows": 25, "caller_buffers_overwritten_after_fit": 300, "fits_through_fit_transform": 400, "configured_not_by_constructor": 400, "non_default_containers": 400, "objective_judgments": 2500, "competitors_tried": 20000, "grids_judged": 600, "pca_limit_judged": 400, "regression_limit_judged": 250, "regression_limit_with_surplus_components": 100, "arpack_grids": 60, "randomized_grids": 60},
    "thorough": {"mixings_within_1e-5_of_one_on_tied_directions": 4000, "earlier_data_with_the_same_shape_means_and_norms": 5500, "more_than_4096_rows": 300, "caller_buffers_overwritten_after_fit": 4000, "fits_through_fit_transform": 5000, "configured_not_by_constructor": 5000, "non_default_containers": 5000, "objective_judgments": 30000, "competitors_tried": 250000, "grids_judged": 7000, "pca_limit_judged": 5000, "regression_limit_judged": 3000, "regression_limit_with_surplus_components": 1200, "arpack_grids": 800, "randomized_grids": 800},
}
RULE = (
    "case = centred X, Y (1-3 targets), k, space, a grid of 9 mixings from 0 to 1 (exact least-squares regressor) plus "
    "ridge fits at 2 random mixings; judged: PCA limit, regression limit, objective value against the closed-form optimum "
    "and against competitor subspaces (random frames, PCA frame, regression frame, perturbations of the fitted frame at "
    "1e-1/1e-2/1e-3), monotonicity of both losses along the grid; estimators with a past were fitted on a sibling table (same shape, column means and norms), their buffers then overwritten. non-trivial = full grid judged; distinct by data+config hash."
)
ASSUMPTIONS = [
    "objective J(Q) = a||X - QQ^T X||^2 + (1-a)||Yhat - QQ^T Yhat||^2 with Q an orthonormal basis of the latent coordinates of the training set",
    "limit claims need an eigen-gap guard (PCA: gaps among the top k+1 eigenvalues of XX^T >= 1e-6 relative); objective/monotonicity claims only need a numerically k-dimensional latent space",
    "regressors without intercept; exact least squares for the limits and the grid, ridge for optimality w.r.t. its own Yhat",
    "slack 1e-8 x ||.||^2 on monotonicity, 1e-6 x tr K~ on the optimum",
]
RULE = RULE + " " + pc._routes_rule() + " One case in 40 adds a table of more than 4096 rows (the data stacked r times against the data times sqrt r)."
RULE = RULE + " " + 'One case in 5 adds fits at mixing 1 - 2^-18 and 1 - 2^-21 on a designed, well-conditioned table with exactly tied 2nd / 3rd principal directions and a target along the 3rd (objective tolerance 1e-9).'
GRID = np.linspace(0.0, 1.0, 9)


def gen(rng, tier, index):
    kind, X, Y = pc.data(rng, tier, kinds=("tall",) if index % 40 == 7 else ("tall", "wide", "square", "deficient", "decay"))
    rank = int(np.linalg.matrix_rank(X))
    k = int(rng.integers(1, max(1, rank) + 1))
    return {
        "routes": pc.routes(rng),
        "many_rows": bool(index % 40 == 7),
        "X": X,
        "Y": Y,
        "kind": kind,
        "k": k,
        "space": gens.pick(rng, ("feature", "sample")),
        "ridge": pc.gen_regressor(rng, X, Y, kinds=("ridge", "default")),
        "ridge_mix": [float(v) for v in rng.uniform(0.02, 0.98, size=2)],
        "cseed": int(rng.integers(1 << 30)),
        "solver": gens.pick(rng, ("full", "full", "full", "arpack", "randomized")),
        "Z": rng.normal(size=(4, X.shape[1])) * float(np.abs(X).max()),
    }


def _frame(T):
    Q, R = np.linalg.qr(T)
    return Q


def _J(a, X, Yh, Q):
    return a * np.linalg.norm(X - Q @ (Q.T @ X)) ** 2 + (1 - a) * np.linalg.norm(Yh - Q @ (Q.T @ Yh)) ** 2


def _competitors(rng, X, Yh, Q, k):
    n = X.shape[0]
    out = []
    for _ in range(4):
        out.append(("random", np.linalg.qr(rng.normal(size=(n, k)))[0]))
    U = np.linalg.svd(X, full_matrices=False)[0]
    if U.shape[1] >= k:
        out.append(("pca", U[:, :k]))
    B = np.hstack([Yh, rng.normal(size=(n, k))])[:, :k]
    out.append(("regression", np.linalg.qr(B)[0]))
    for eps in (1e-1, 1e-2, 1e-3):
        out.append((f"perturb{eps:g}", np.linalg.qr(Q + eps * rng.normal(size=Q.shape))[0]))
    return out


def _judge_objective(j, rng, a, X, Yh, T, k, label):
    Kt = pc.ktilde(a, X, Yh)
    w = pc.spectrum(Kt)
    tr = float(np.trace(Kt))
    keff = int(min(k, (w > 1e-8 * w[0]).sum()))
    if keff < k and not (a == 0.0):
        j.skip("latent-space-numerically-lower-dimensional")
        return
    sv = np.linalg.svd(T, compute_uv=False)
    r = int((sv > 1e-8 * sv[0]).sum())
    Q = np.linalg.svd(T, full_matrices=False)[0][:, :r]
    val = _J(a, X, Yh, Q)
    opt = tr - float(w[:keff].sum())
    j.close(f"objective attains the closed-form optimum [{label}]", val, opt, 1e-6 * max(tr, 1e-300), {"mixing": a, "k": k, "rank_T": r})
    j.note("objective_judgments")
    if r == k:
        for name, Qc in _competitors(rng, X, Yh, Q, k):
            j.ok(f"no competitor subspace has a smaller objective [{name}]", val <= _J(a, X, Yh, Qc) + 1e-8 * max(tr, 1e-300), lambda: {"mixing": a, "J": val, "Jc": _J(a, X, Yh, Qc), "label": label})
            j.note("competitors_tried")


def run(case, j):
    pc.use_routes(j, case)
    from sklearn.decomposition import PCA
    from sklearn.linear_model import LinearRegression

    X, Y, k, space, Z = case["X"], case["Y"], case["k"], case["space"], case["Z"]
    n, m = X.shape
    Y2 = pc.col2(Y, n)
    p = Y2.shape[1]
    j.tag(f"space:{space}", f"data:{case['kind']}", f"p:{p}")
    if not pc.x_guard(X):
        raise Skip("XtX-eigenvalue-near-tol-cut")
    rng = np.random.default_rng(case["cseed"])
    solver = case.get("solver", "full")
    if solver == "arpack" and k >= min(n, m):
        solver = "full"
    skw = {"svd_solver": solver}
    if solver != "full":
        skw.update(random_state=case["cseed"] % 1000, iterated_power=30)
        # truncated solvers are only exact when the retained spectrum is separated / the sketch spans the matrix
        if solver == "randomized" and k + 10 < min(n, m + p):
            skw["svd_solver"] = solver = "full"
    j.tag(f"solver:{solver}")
    if solver != "full":
        j.note(f"{solver}_grids")
    # exact least squares: scikit-learn's LinearRegression where X has full column rank, otherwise the
    # pseudo-inverse solution passed as precomputed (LinearRegression keeps rounding-noise singular
    # directions of rank-deficient / centred wide X, which is not skmatter's doing)
    svX = np.linalg.svd(X, compute_uv=False)
    full_col = bool(len(svX) == m and svX[-1] > 1e-6 * svX[0])
    Wp = np.linalg.pinv(X, rcond=1e-10) @ Y2
    if full_col and case["cseed"] % 2 == 0:
        lr = {"kind": "lr"}
    else:
        Yp_ = X @ Wp
        lr = {"kind": "precomputed", "Yhat": Yp_[:, 0] if np.ndim(Y) == 1 else Yp_, "W": Wp}
    j.tag(f"ls:{lr['kind']}")
    Yh, W = pc.oracle_yhat(lr, X, Y)
    nX2, nY2 = float(np.linalg.norm(X) ** 2), float(np.linalg.norm(Y2) ** 2)

    # ---- grid with the exact least-squares regressor (one regressor object for the whole sweep; the
    # estimator of the first grid point has a past: an earlier fit on other data with the same objects)
    robj = pc.make_regressor(lr, abort=True)
    lx, ly, lyh = [], [], []
    for a in GRID:
        past = np.random.default_rng(case["cseed"] + 17) if (case["cseed"] % 3 == 0 and a in (0.0, 0.5)) else None
        est = pc.fit_pcovr(j, f"grid a={a:.3f}", X, Y, lr, regressor_obj=robj, past=past, mixing=float(a), n_components=k, space=space, **skw)
        T = np.asarray(est.transform(X))
        Xr = est.inverse_transform(T)
        Yp = pc.col2(est.predict(X), n)
        lx.append(float(np.linalg.norm(X - Xr) ** 2))
        ly.append(float(np.linalg.norm(Y2 - Yp) ** 2))
        Qa = np.linalg.svd(T, full_matrices=False)[0]
        sv = np.linalg.svd(T, compute_uv=False)
        Qa = Qa[:, : int((sv > 1e-8 * max(sv[0], 1e-300)).sum())]
        lyh.append(float(np.linalg.norm(Yh - Qa @ (Qa.T @ Yh)) ** 2))
        _judge_objective(j, rng, float(a), X, Yh, T, k, "LS")
        if a == 1.0:
            w = pc.spectrum(X @ X.T)
            # an iterative eigensolver determines eigenvectors to (its tolerance) / (relative gap): wider gaps required
            if pc.gap_guard(w, k, rel_gap=1e-6 if solver == "full" else 1e-3):
                pca = PCA(n_components=k, svd_solver="full").fit(X)
                Tp = pca.transform(X)
                j.close("mixing=1: coordinates are PCA's up to sign", T, pc.align(T, Tp), 1e-6 * float(np.sqrt(w[0])) * 10)
                j.close("mixing=1: reconstruction is PCA's", Xr, pca.inverse_transform(Tp), 1e-6 * float(np.abs(X).max()) * 10)
                TZ, TpZ = est.transform(Z), pca.transform(Z)
                sg = np.sign((T * Tp).sum(axis=0))
                sg[sg == 0] = 1.0
                j.close("mixing=1: new data projected as PCA does", TZ, TpZ * sg, 1e-6 * max(float(np.abs(TpZ).max()), 1e-300) * 10)
                j.note("pca_limit_judged")
            else:
                j.skip("pca-limit:eigen-gap")
        if a == 0.0:
            rY = int(np.linalg.matrix_rank(Yh, tol=1e-8 * max(np.linalg.norm(Yh, 2), 1e-300)))
            wK = pc.spectrum(pc.ktilde(0.0, X, Yh))
            if k >= rY and rY >= 1 and wK[rY - 1] > 1e-6 * wK[0]:
                if k > rY:
                    j.note("regression_limit_with_surplus_components")
                sY = max(float(np.abs(Y2).max()), 1e-300)
                j.close("mixing=0, k >= #targets: training predictions == unregularised linear regression", Yp, X @ Wp, 1e-6 * sY * 10)
                if rY == p and full_col:
                    ref = LinearRegression(fit_intercept=False).fit(X, Y2)
                    j.close("mixing=0: predictions on new data == linear regression", pc.col2(est.predict(Z), len(Z)), ref.predict(Z), 1e-6 * max(float(np.abs(ref.predict(Z)).max()), sY) * 10)
                    j.note("regression_limit_new_data")
                j.note("regression_limit_judged")
            else:
                j.skip("regression-limit:k<rank(Yhat)")
    lx, ly, lyh = np.array(lx), np.array(ly), np.array(lyh)
    j.ok("reconstruction loss of X non-increasing in mixing", bool(np.all(np.diff(lx) <= 1e-8 * nX2)), lambda: {"lx": lx.tolist(), "k": k})
    j.ok("regression loss ||Yhat - P_T Yhat||^2 non-decreasing in mixing", bool(np.all(np.diff(lyh) >= -1e-8 * max(float(np.linalg.norm(Yh) ** 2), 1e-300))), lambda: {"lyh": lyh.tolist(), "k": k})
    j.ok("training prediction loss non-decreasing in mixing (exact LS)", bool(np.all(np.diff(ly) >= -1e-8 * nY2)), lambda: {"ly": ly.tolist(), "k": k})
    j.note("grids_judged")

    # ---- ridge: optimality w.r.t. its own Yhat
    rg = case["ridge"]
    Yhr, _ = pc.oracle_yhat(rg, X, Y)
    rgobj = pc.make_regressor(rg, abort=True)
    for i_, a in enumerate(case["ridge_mix"]):
        past = np.random.default_rng(case["cseed"] + 23) if (case["cseed"] % 2 == 0 and i_ == 0) else None
        est = pc.fit_pcovr(j, f"ridge a={a:.3f}", X, Y, rg, regressor_obj=rgobj, past=past, mixing=a, n_components=k, space=space, **skw)
        _judge_objective(j, rng, a, X, Yhr, np.asarray(est.transform(X)), k, "ridge")
    if case["cseed"] % 5 == 0:
        # ---- a mixing just below 1 on a well-conditioned table whose k-th and (k+1)-th principal directions are exactly
        # tied: PCA cannot tell them apart, the mixed objective can (the target lies along one of them), and with all
        # singular values within a factor 3 the closed-form optimum is known to ~1e-14, so the tolerance can be 1e-9
        from skmatter.decomposition import PCovR as _PCovR

        nn, mm, kk = int(rng.integers(12, 20)), int(rng.integers(4, 7)), 2
        Un, Vm = np.linalg.qr(rng.normal(size=(nn, mm)))[0], np.linalg.qr(rng.normal(size=(mm, mm)))[0]
        Un = Un - Un.mean(axis=0)
        Un = np.linalg.qr(Un)[0]
        s_ = np.concatenate([[3.0, 2.0, 2.0], np.linspace(1.5, 1.0, mm - 3)])
        Xd = (Un * s_) @ Vm.T
        Xd = Xd - Xd.mean(axis=0)
        Yd = (Xd @ Vm[:, 2:3]) * 1.5 + 0.05 * (Xd @ rng.normal(size=(mm, 1)))  # along the third direction
        for a_ in (1.0 - 2.0**-18, 1.0 - 2.0**-21):
            for sp_ in ("feature", "sample"):
                e_ = _PCovR(mixing=a_, n_components=kk, space=sp_, regressor=LinearRegression(fit_intercept=False), svd_solver="full")
                j.lib(f"fit:mixing just below one ({sp_})", e_.fit, Xd, Yd)
                Kt_ = pc.ktilde(a_, Xd, Yd)
                w_ = pc.spectrum(Kt_)
                Q_ = np.linalg.svd(np.asarray(e_.transform(Xd)), full_matrices=False)[0]
                j.close("objective attains the closed-form optimum [mixing just below 1, tied principal directions]", _J(a_, Xd, Yd, Q_), float(np.trace(Kt_)) - float(w_[:kk].sum()), 1e-9 * float(np.trace(Kt_)), {"mixing": a_, "space": sp_})
                j.note("mixings_within_1e-5_of_one_on_tied_directions")
    if case.get("many_rows"):
        for a_ in (0.0, 0.4, 1.0):
            pc.many_rows_relation(j, X, Y, {"kind": "lr"} if full_col else {"kind": "ridge", "alpha": 1e-3}, a_, min(k, m))
    j.nontrivial = True
    j.sample = {
        "X": f"{X.shape} {case['kind']}",
        "targets": p,
        "k": k,
        "space": space,
        "grid": GRID.tolist(),
        "loss_X_along_grid": [round(v / nX2, 6) for v in lx],
        "loss_Y_along_grid": [round(v / nY2, 6) for v in ly],
    }
