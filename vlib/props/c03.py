"""C03 - PCovR's latent space does not depend on the computational route.

Monitor: M2 wrappers on pcovr_covariance / pcovr_kernel as bound in
decomposition._pcovr capture the matrix each fit diagonalises; public
transform/predict/inverse_transform/singular_values_/explained_variance_ of paired fits.
Oracle: dense eigh of an independently assembled modified Gram matrix; pairwise
agreement of the routes up to a per-component sign, under an explicit eigen-gap guard.
"""

from __future__ import annotations

import numpy as np

from .. import gens, pc
from ..common import Skip, brief

ID = "C03"
CASES = {"quick": 3000, "thorough": 30000}
FLOOR = {"quick": 2000, "thorough": 20000}
FLOOR_COUNTERS = {
    "quick": {"earlier_data_with_the_same_shape_means_and_norms": 700, "new_sample_pairs_compared": 5000, "other_units": 300, "more_than_4096_rows": 15, "caller_buffers_overwritten_after_fit": 300, "fits_through_fit_transform": 400, "configured_not_by_constructor": 400, "non_default_containers": 400, "route_pairs_compared": 2500, "captured_matrices": 3000, "arpack_fits": 500, "randomized_fits": 500},
    "thorough": {"earlier_data_with_the_same_shape_means_and_norms": 7000, "new_sample_pairs_compared": 60000, "other_units": 4000, "more_than_4096_rows": 200, "caller_buffers_overwritten_after_fit": 4000, "fits_through_fit_transform": 5000, "configured_not_by_constructor": 5000, "non_default_containers": 5000, "route_pairs_compared": 30000, "captured_matrices": 40000, "arpack_fits": 6000, "randomized_fits": 6000},
}
RULE = (
    "case = centred X (tall/wide/square/rank-deficient/decaying spectrum), Y with 1-3 targets (1-D and 2-D), mixing in "
    "{0,.05,.5,.95,1}, k in [1, rank], regressor in {default Ridge, Ridge(alpha), LinearRegression(no intercept), "
    "precomputed Yhat with/without W}; fits: feature/full, sample/full, arpack and randomized in a random space; all routes "
    "compared pairwise; estimators with a past were fitted on a sibling table (same shape, column means and column norms). non-trivial = eigen-gap guard passed and >= 3 routes compared; distinct by hash of data+config."
)
ASSUMPTIONS = [
    "eigen-gap guard: relative gaps among lambda_1..lambda_{k+1} >= 1e-6 and lambda_k/lambda_1 >= 1e-8, else skipped (subspace not determined to rounding)",
    "X^T X has no eigenvalue near the estimator's absolute tol=1e-12 cut (else skipped)",
    "randomized solver judged only when its sketch (k+10 columns) spans the matrix or the spectrum decays with iterated_power=30",
    "regressors without intercept (Yhat = X W is what the sample-space projector formula assumes)",
    "comparison tolerance 1e-6 relative (1e-5 for randomized)",
]
RULE = RULE + " " + pc._routes_rule() + " One case in 40 adds a table of more than 4096 rows (the data stacked r times against the data times sqrt r)."
RULE = RULE + " " + 'One case in 300: 1025 / 1026 / 2049 rows with few columns (the sample-space route handles an n x n matrix).'
MIX = (0.0, 0.05, 0.5, 0.5, 0.95, 1.0)


def gen(rng, tier, index):
    kind, X, Y = pc.data(rng, tier, kinds=("tall",) if index % 40 == 7 else ("tall", "wide", "square", "deficient", "decay", "cliff"))
    if index % 300 == 11:
        # row counts just beyond a power of two (what a blocked accumulation of the n x n Gram matrix would split):
        # 1025, 1026 or 2049 rows, few columns; the sample-space route then handles an n x n matrix
        n_ = (1025, 1026, 1025, 2049)[(index // 300) % 4]
        m_ = int(rng.integers(3, 7))
        X = rng.normal(size=(n_, m_)) * np.logspace(0, -1, m_)
        X = X - X.mean(axis=0)
        Y = X @ rng.normal(size=(m_, 2)) + 0.3 * rng.normal(size=(n_, 2))
        Y = Y - Y.mean(axis=0)
        kind = "rows_1024q+1"
    unit = 1.0
    X0, Y0 = X, Y
    if rng.random() < 0.3:  # the same table in other units (exact powers of two), features and targets independently
        unit = float(2.0 ** int(rng.integers(-12, 11)))
        X, Y = X * unit, Y * float(2.0 ** int(rng.integers(-12, 11)))
    reg = pc.gen_regressor(rng, X, Y)
    if reg["kind"] == "default" and unit != 1.0:
        # the default regressor regularises with an ABSOLUTE alpha = 1e-6: in other units it is another (and for large
        # units a numerically singular) regression, whose fitted values scikit-learn determines only to eps x cond
        X, Y, unit = X0, Y0, 1.0
    rank = int(np.linalg.matrix_rank(X))
    k = int(rng.integers(1, max(1, rank) + 1))
    if kind == "cliff":
        k = int((np.linalg.svd(X, compute_uv=False) > 0.5 * np.linalg.norm(X, 2)).sum()) + (np.ndim(Y) if rng.random() < 0.5 else 0)
    return {
        "routes": pc.routes(rng),
        "many_rows": bool(index % 40 == 7),
        "X": X,
        "Y": Y,
        "kind": kind,
        "unit": unit,
        "Znew": rng.normal(size=(int(rng.integers(1, 6)), X.shape[1])) * float(np.abs(X).std() or 1.0),  # new samples, not in the row space of X
        "reg": reg,
        "mixing": float(gens.pick(rng, MIX)),
        "k": k,
        "trunc_space": gens.pick(rng, ("feature", "sample")),
        "seed": int(rng.integers(1000)),
        "past": bool(rng.random() < 0.3),
    }


def run(case, j):
    pc.use_routes(j, case)
    X, Y, reg, a, k = case["X"], case["Y"], case["reg"], case["mixing"], case["k"]
    n, m = X.shape
    if n > 1024:
        j.note("sample_space_routes_with_more_than_1024_rows")
    Zn = case["Znew"] if case.get("Znew") is not None else X[:2] * 1.1
    # new samples are compared across routes inside the row space of X: outside it the model is only defined through the
    # regression weights, whose null-space part is arbitrary for rank-deficient X (scikit-learn's solver, not skmatter)
    _, svx, Vtx = np.linalg.svd(X, full_matrices=True)
    rk = int((svx > 1e-10 * svx[0]).sum())
    Nx = Vtx[rk:].T
    if rk < m:
        Zn = Zn - (Zn @ Nx) @ Nx.T
    j.tag(f"data:{case['kind']}", f"reg:{reg['kind']}", f"mixing:{a}", "y1d" if np.ndim(Y) == 1 else "y2d")
    if not pc.x_guard(X):
        raise Skip("XtX-eigenvalue-near-tol-cut")
    if not pc.reg_guard(reg, X):
        raise Skip("regression-ill-conditioned(eps x cond above the tolerances)")
    Yh, W = pc.oracle_yhat(reg, X, Y)
    Kt = pc.ktilde(a, X, Yh)
    w = pc.spectrum(Kt)
    if not pc.gap_guard(w, k):
        raise Skip("eigen-gap-guard")
    lam = w[:k]
    tolr = 1e-6

    fits = {}
    robj = pc.make_regressor(reg, abort=True)  # one regressor object shared by every route
    past = (lambda i: np.random.default_rng(case["seed"] * 7 + i)) if case.get("past") else (lambda i: None)
    with pc.Capture() as cap:  # earlier-history fits pass through the capture too: index 1 is the real-data fit then
        fits["feature/full"] = pc.fit_pcovr(j, "feature/full", X, Y, reg, regressor_obj=robj, past=past(1), mixing=a, n_components=k, space="feature", svd_solver="full")
        fits["sample/full"] = pc.fit_pcovr(j, "sample/full", X, Y, reg, regressor_obj=robj, past=past(2), mixing=a, n_components=k, space="sample", svd_solver="full")
        sp = case["trunc_space"]
        if k < min(n, m):
            fits[f"{sp}/arpack"] = pc.fit_pcovr(j, "arpack", X, Y, reg, regressor_obj=robj, mixing=a, n_components=k, space=sp, svd_solver="arpack", random_state=case["seed"])
            j.note("arpack_fits")
        dim = n if sp == "sample" else m
        decays = bool(w[min(k, len(w) - 1)] <= 1e-3 * w[k - 1]) if k < len(w) else True
        if k + 10 >= min(dim, int((w > 1e-12 * w[0]).sum())) or decays:
            if k + 10 < min(dim, int((w > 1e-12 * w[0]).sum())):
                j.note("randomized_sketch_smaller_than_rank")
            fits[f"{sp}/randomized"] = pc.fit_pcovr(j, "randomized", X, Y, reg, regressor_obj=robj, mixing=a, n_components=k, space=sp, svd_solver="randomized", random_state=case["seed"], iterated_power=30)
            j.note("randomized_fits")
    if not cap.ok:
        j.note("capture_wrap_points_missing")

    # --- the matrices that were diagonalised
    if cap.cov and cap.ker:
        j.note("captured_matrices", len(cap.cov) + len(cap.ker))
        wk = pc.spectrum(cap.ker[1 if case.get("past") and len(cap.ker) > 1 else 0])
        j.close("captured modified Gram matrix has the spectrum of the oracle's K~", wk[: len(w)], w, 1e-7 * w[0])
        wc = pc.spectrum(cap.cov[1 if case.get("past") and len(cap.cov) > 1 else 0])
        r = min(len(wc), len(wk))
        j.close("modified covariance and modified Gram matrix share their non-zero spectrum", wc[:r], wk[:r], 1e-7 * w[0])
        j.ok("spectra beyond the common size vanish", float(np.abs(wc[r:]).max(initial=0)) <= 1e-7 * w[0] and float(np.abs(wk[r:]).max(initial=0)) <= 1e-7 * w[0])

    # --- per-fit reported spectrum
    views = {}
    for name, est in fits.items():
        tol = (1e-5 if "randomized" in name else tolr)
        j.close(f"singular_values_^2 == top-k eigenvalues, decreasing [{name.split('/')[1]}]", est.singular_values_**2, lam, tol * w[0])
        j.close(f"explained_variance_ == eigenvalues/(n-1) [{name.split('/')[1]}]", est.explained_variance_, lam / (n - 1), tol * w[0] / (n - 1))
        if name.startswith("feature") and rk < m:
            # (X^T X)^(-1/2) is a pseudo-inverse square root: the feature-space projector lives in the row space of X
            out = float(np.abs(Nx.T @ est.pxt_).max())
            j.ok("feature-space projector pxt_ has no component outside the row space of X", out <= 1e-6 * max(float(np.abs(est.pxt_).max()), 1e-300), {"outside": out, "scale": float(np.abs(est.pxt_).max())})
            j.note("row_space_checks")
        T = j.lib("transform", est.transform, X)
        views[name] = (T, np.asarray(j.lib("predict", est.predict, X)), j.lib("inverse_transform", est.inverse_transform, T), np.asarray(est.transform(Zn)), np.asarray(est.predict(Zn)))

    if case.get("unit", 1.0) != 1.0:
        j.note("other_units")
    names = list(views)
    sT = max(float(np.sqrt(w[0])), 1e-300)
    sY = max(float(np.abs(Yh).max()), float(np.abs(np.asarray(Y)).max()), 1e-300)
    sX = max(float(np.abs(X).max()), 1e-300)
    for i in range(len(names)):
        for k2 in range(i + 1, len(names)):
            A, B = views[names[i]], views[names[k2]]
            tol = 1e-5 if ("randomized" in names[i] or "randomized" in names[k2]) else tolr
            lab = f"{names[i].split('/')[1]}~{names[k2].split('/')[1]}" + ("" if names[i].split("/")[0] == names[k2].split("/")[0] else " across spaces")
            j.close(f"latent coordinates equal up to sign [{lab}]", A[0], pc.align(A[0], B[0]), tol * sT * 10)
            j.close(f"predictions equal [{lab}]", A[1], B[1], tol * sY * 10)
            j.close(f"reconstructions of X equal [{lab}]", A[2], B[2], tol * sX * (30 if ("arpack" in lab or "randomized" in lab) else 10))
            sgn = np.sign((np.asarray(A[0]) * np.asarray(B[0])).sum(axis=0))
            sgn[sgn == 0] = 1.0
            sZ = max(float(np.abs(A[3]).max()), float(np.abs(B[3]).max()), sT)
            # new samples have components along low-variance directions, which the projector scales by 1/sqrt(lambda): an
            # iterative solver's eigenvector error shows there first
            tz = tol * (10 if ("arpack" in lab or "randomized" in lab) else 1)
            j.close(f"latent coordinates of NEW samples equal up to sign [{lab}]", A[3], B[3] * sgn, tz * sZ * 10)
            j.close(f"predictions for NEW samples equal [{lab}]", A[4], B[4], tz * max(float(np.abs(A[4]).max()), sY) * 10)
            j.note("new_sample_pairs_compared")
            j.note("route_pairs_compared")
    if case.get("many_rows"):
        pc.many_rows_relation(j, X, Y, reg, a, k)
    j.nontrivial = len(views) >= 3
    j.sample = {
        "X": f"{X.shape} {case['kind']}",
        "Y": str(np.shape(Y)),
        "mixing": a,
        "k": k,
        "regressor": reg["kind"],
        "routes": names,
        "top_eigenvalues": [float(v) for v in w[: k + 1]],
        "captured": {"covariance": len(cap.cov), "kernel": len(cap.ker)},
    }
