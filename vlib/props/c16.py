"""C16 - QuickShift returns the basin partition of the density-ascent graph.

Monitor: M2 hooks on QuickShift._qs_next / _gs_next record every pointer event
next(i) = j; M2 on _get_gabriel_graph (as bound in the module) captures the graph that
was used; public labels_, cluster_centers_idx_, cluster_centers_.
Oracle: brute force from the squared (periodic) distance matrix - the set of admissible
successors of every point, the Gabriel graph by definition, roots reached by following
pointers; permutation / monotone re-weighting / periodic-image relations.
"""

from __future__ import annotations

import itertools

import numpy as np

from .. import gens, rt
from ..common import Skip, brief

ID = "C16"
PERM_N = {"quick": 5, "thorough": 7}
PERM_SETS = {"quick": 24, "thorough": 12}
CASES = {"quick": 1200 + PERM_SETS["quick"], "thorough": 12000 + PERM_SETS["thorough"]}
FLOOR = {"quick": 1100, "thorough": 11000}
FLOOR_COUNTERS = {
    "quick": {"ascent_paths_longer_than_log2_n_plus_1": 1500, "pointer_events": 20000, "gabriel_graphs_checked": 280, "permutation_fits": 24 * 120 + 1000, "periodic_fits": 300, "tie_free_relation_cases": 600, "refitted_estimators": 350, "other_length_units": 250, "small_length_units": 70, "cell_given_after_construction": 120, "free_space_fits_next_to_a_periodic_bystander": 200, "weights_as_ranks_in_another_dtype": 300, "legal_fits_after_refused_fits": 300},
    "thorough": {"ascent_paths_longer_than_log2_n_plus_1": 15000, "pointer_events": 250000, "gabriel_graphs_checked": 2800, "permutation_fits": 12 * 5040 + 10000, "periodic_fits": 3000, "tie_free_relation_cases": 6000, "refitted_estimators": 3500, "other_length_units": 2500, "small_length_units": 700, "cell_given_after_construction": 1200, "free_space_fits_next_to_a_periodic_bystander": 2000, "weights_as_ranks_in_another_dtype": 3500, "legal_fits_after_refused_fits": 3500},
}
RULE = (
    "case = point set (1-4 dimensions, 2-150 points [<= 60 in Gabriel mode]; generic / collinear / duplicated / lattice / chains: points strung along a line with weights growing along it and a reach of one step, i.e. ascent paths of up to n-1 moves), "
    "distinct weights, mode cut-off (per-point cut-offs from 1e-3 to 10x the diameter, scale) | Gabriel (shell 1-4), optional "
    "periodic cell; 30% in other length units (x 2^-40..2^23, exact), 40% with the estimator fitted again after a fit on other data. The last PERM_SETS case indices enumerate ALL n! input orders of one n-point set (n = 5 quick / 7 "
    "thorough). non-trivial = more than one cluster and a point whose path has >= 2 steps; distinct by data hash."
)
RULE = RULE + " " + 'Weights as ranks in another dtype, incl. int64 + 2^60 and uint64 + 2^63.'
ASSUMPTIONS = [
    "successor sets: candidates whose squared distance is within 1e-12 relative of the minimum are all admissible (ties)",
    "relations (permutation, monotone re-weighting, image shifts) judged on tie-free configurations only",
    "both dist_cutoff_sq and gabriel_shell set is not generated (the constructor accepts it but fit cannot run)",
]


def _points(rng, n, d, kind):
    if kind == "generic":
        return rng.normal(size=(n, d)) * 2
    if kind == "clusters":
        c = rng.normal(size=(3, d)) * 4
        return c[rng.integers(0, 3, size=n)] + 0.5 * rng.normal(size=(n, d))
    if kind == "collinear":
        return np.outer(rng.normal(size=n) * 2, rng.normal(size=d)) + 1e-9 * 0
    if kind == "duplicated":
        base = rng.normal(size=(max(2, n // 2), d)) * 2
        return base[rng.integers(0, len(base), size=n)]
    return rng.integers(-2, 3, size=(n, d)).astype(float)  # lattice


def gen(rng, tier, index):
    nperm = PERM_SETS[tier]
    exh = index >= CASES[tier] - nperm
    d = int(rng.integers(1, 5))
    mode = gens.pick(rng, ("cutoff", "cutoff", "gabriel"))
    kind = gens.pick(rng, ("generic", "generic", "clusters", "collinear", "duplicated", "lattice", "chain"))
    if exh:
        n, kind = PERM_N[tier], "generic"
        d = int(rng.integers(1, 4))
    else:
        hi = 150 if mode == "cutoff" else 60
        n = int(rng.integers(2, hi if rng.random() < 0.3 else 30))
    X = _points(rng, n, d, kind)
    w = rng.permutation(n).astype(float) + rng.random(n) * 0.5
    chain = None
    if kind == "chain":
        # points strung along a line with steps in [0.8, 1.2] (input order shuffled) and weights that grow along it, a
        # few dips apart: with a reach of one step the ascent from the far end visits every point - paths of up to
        # n - 1 moves, not the handful a random cloud gives
        pos = np.cumsum(rng.uniform(0.8, 1.2, size=n))
        u = rng.normal(size=d)
        order = rng.permutation(n)
        X = np.outer(pos, u / np.linalg.norm(u))[order]
        rank = np.arange(n).astype(float)
        for _ in range(int(rng.integers(0, 3))):
            if n > 4:
                a_ = int(rng.integers(1, n - 1))
                rank[a_], rank[a_ - 1] = rank[a_ - 1], rank[a_]  # a local dip: a second centre, or a detour
        w = (rank + rng.random(n) * 0.5)[order]
        chain = True
    cell = None
    if rng.random() < 0.35 and not chain:
        cell = rng.uniform(1.5, 6.0, size=d)
    diam = float(np.sqrt(((X.max(0) - X.min(0)) ** 2).sum())) + 1e-9
    case = {"X": X, "w": w, "cell": cell, "mode": mode, "kind": kind, "exhaustive_perm": bool(exh)}
    if mode == "cutoff":
        case["cuts"] = (diam * rng.choice([1e-3, 0.05, 0.2, 0.5, 1.0, 10.0], size=n)) ** 2
        case["scale"] = float(gens.pick(rng, (1.0, 1.0, 0.5, 2.0)))
        if chain:
            case["cuts"] = np.full(n, (float(rng.uniform(1.25, 1.5)) / case["scale"]) ** 2)  # reach: the adjacent point only
    else:
        case["shell"] = int(rng.integers(1, 5)) if not chain else 1
    unit = 1.0
    if rng.random() < 0.3:  # the same configuration in other length units (exact power of two)
        unit = float(2.0 ** int(rng.integers(-40, 24)))
        case["X"] = X * unit
        if cell is not None:
            case["cell"] = cell * unit
        if mode == "cutoff":
            case["cuts"] = case["cuts"] * unit**2
    case["unit"] = unit
    case["bystander"] = bool(rng.random() < 0.4)
    case["wdtype"] = gens.pick(rng, (None, None, None, "uint8", "uint16", "uint64", "int32", "float32", "int64+2^60", "uint64+2^63"))  # weights as ranks / counts in another dtype
    case["failed_fit"] = bool(rng.random() < 0.4)
    case["cell_set"] = gens.pick(rng, ("ctor", "ctor", "set_params", "setattr", "decoy_then_set"))
    case["refit"] = bool(rng.random() < 0.4)  # the estimator is fitted again (other data in between)
    case["X_other"] = _points(rng, n, d, "generic") * unit
    case["perms"] = [rng.permutation(n) for _ in range(3)]
    case["shifts"] = rng.integers(-3, 4, size=(n, d))
    return case


def _dist2(X, cell):
    diff = X[:, None, :] - X[None, :, :]
    if cell is not None:
        diff = diff - np.round(diff / cell) * cell
    return (diff**2).sum(-1)


def _brute_gabriel(D, ta=0.0):
    """(must, may): an edge must exist when no third point is inside or on the boundary of the
    ball spanned by it, may exist when no third point is strictly inside (boundary points, e.g.
    right angles on a lattice or duplicates, are decided by rounding; ta = absolute rounding level of a
    squared distance)."""
    n = len(D)
    must = np.zeros((n, n), bool)
    may = np.zeros((n, n), bool)
    for i in range(n):
        lhs = D[i][None, :] + D  # lhs[j, k] = d(i,k) + d(j,k)
        rhs = D[i][:, None]
        with np.errstate(invalid="ignore"):
            strictly = lhs < rhs * (1 - 1e-12) - 3 * ta
            touching = lhs <= rhs * (1 + 1e-12) + 3 * ta
        for m in (strictly, touching):
            m[:, i] = False
            m[np.arange(n), np.arange(n)] = False
        may[i] = ~strictly.any(axis=1)
        must[i] = ~touching.any(axis=1)
        may[i, i] = must[i, i] = False
    return must, may


def _near(vals, idx, ta=0.0):
    """indices (from idx) whose value is within rounding (1e-12 relative, ta absolute) of the minimum"""
    v = vals[idx]
    m = v.min()
    return {int(i) for i, x in zip(idx, v) if x <= m + 1e-12 * max(abs(m), 1e-300) + 2 * ta}


def _successors(D, w, i, case, G, cutsq, ta=0.0):
    """Set of admissible successors of i; comparisons that are within rounding of a tie (squared
    distances are only known to ta absolutely) admit both outcomes."""
    n = len(w)
    higher = np.array([k for k in range(n) if w[k] > w[i]], dtype=int)
    if case["mode"] == "cutoff":
        allowed = set()
        inside_may = higher[D[i, higher] < cutsq[i] + ta] if len(higher) else higher
        inside_def = higher[D[i, higher] < cutsq[i] - ta] if len(higher) else higher
        if len(inside_may):
            allowed |= _near(D[i], inside_may, ta)
        if not len(inside_def):  # possibly nobody inside the cut-off: nearest-neighbour fall-back
            others = np.array([k for k in range(n) if k != i], dtype=int)
            nn = _near(D[i], others, ta)
            r = {k for k in nn if w[k] > w[i]}
            allowed |= r | ({i} if len(r) < len(nn) else set())
        return allowed
    reach = np.zeros(n, bool)
    reach |= G[i]
    for _ in range(1, case["shell"]):
        reach = reach | G[reach].any(axis=0)
    cand = np.array([k for k in higher if reach[k]], dtype=int)
    if not len(cand):
        return {i}
    return _near(D[i], cand, ta)


def _fit(case, X, w, cuts=None, record=None, graphs=None, est=None):
    import skmatter.clustering._quick_shift as mod
    from skmatter.clustering import QuickShift

    mp = {"cell_length": None if case["cell"] is None else case["cell"].copy()}
    if est is not None:
        q = est
    else:
        if case.get("bystander") and case["cell"] is None:
            # another estimator of the same class, built without metric_params and made periodic by writing into ITS
            # dictionary in place, lives next to the judged one: instances do not share configuration
            b = QuickShift(dist_cutoff_sq=np.full(4, 1.0)) if case["mode"] == "cutoff" else QuickShift(gabriel_shell=1)
            b.metric_params["cell_length"] = np.full(X.shape[1], 0.9 * float(np.abs(X).max() or 1.0))
            b.fit(np.random.default_rng(len(X)).normal(size=(4, X.shape[1])) * float(np.abs(X).max() or 1.0), samples_weight=np.arange(4.0))
        late = case.get("cell_set", "ctor")  # the periodic cell given to the constructor, or to the object afterwards
        mp0 = (mp if case["cell"] is not None else None) if late == "ctor" else None  # free space: the constructor default
        if case["mode"] == "cutoff":
            q = QuickShift(dist_cutoff_sq=np.array(case["cuts"] if cuts is None else cuts, copy=True), scale=case["scale"], metric_params=mp0)
        else:
            q = QuickShift(gabriel_shell=case["shell"], metric_params=mp0)
        if late == "set_params":
            q.set_params(metric_params=mp)
        elif late == "setattr":
            q.metric_params = mp
        elif late == "decoy_then_set":
            q.metric_params = {"cell_length": None if case["cell"] is None else case["cell"] * 1.7}
            q.set_params(metric_params=mp)
    ctxs = []
    if record is not None:
        def post(self, tok, res, a, k):
            record.append((int(a[0]), int(res)))

        for nm in ("_qs_next", "_gs_next"):
            if hasattr(QuickShift, nm):
                ctxs.append(rt.hook_method(QuickShift, nm, post=post))
    if graphs is not None and hasattr(mod, "_get_gabriel_graph"):
        orig = mod._get_gabriel_graph

        def wg(D):
            g = orig(D)
            graphs.append(np.array(g, copy=True))
            return g

        ctxs.append(rt.patched(mod, "_get_gabriel_graph", wg))
    wfit = w.copy()
    if case.get("wdtype") and len(w) < 250:
        wd_, off_ = case["wdtype"], 0
        if "+2^" in wd_:  # counts far beyond 2^53: distinct as integers, equal once rounded to double precision
            wd_, e_ = wd_.split("+2^")
            off_ = 2 ** int(e_)
        wfit = np.argsort(np.argsort(w)).astype(wd_)  # the same order of weights, stored as ranks in another dtype
        if off_:
            wfit = wfit + np.array(off_, dtype=wd_)
    if case.get("failed_fit") and est is None:
        # a failure in the history: a successful fit on other points of the same number, then fits on THESE points that are
        # refused (weights missing, weights of another length), then the legal fit
        for args, kws in (((case["X_other"].copy(),), {"samples_weight": wfit.copy()}), ((X.copy(),), {}), ((X.copy(),), {"samples_weight": wfit[:-1].copy()})):
            try:
                q.fit(*args, **kws)
            except Exception:  # noqa: BLE001
                pass
    for c in ctxs:
        c.__enter__()
    try:
        q.fit(X.copy(), samples_weight=wfit)
    finally:
        for c in reversed(ctxs):
            c.__exit__(None, None, None)
    return q


def _partition(labels):
    groups = {}
    for i, l in enumerate(labels):
        groups.setdefault(int(l), []).append(i)
    return groups


def run(case, j):
    X, w, cell = case["X"], case["w"], case["cell"]
    n, d = X.shape
    if case.get("unit", 1.0) != 1.0:
        j.note("other_length_units")
        if case["unit"] < 1e-4:
            j.note("small_length_units")
    j.tag(f"mode:{case['mode']}", f"data:{case['kind']}", "unit:1" if case.get("unit", 1.0) == 1.0 else "unit:other", "periodic" if cell is not None else "free", "all-orders" if case["exhaustive_perm"] else "sampled")
    D = _dist2(X, cell)
    np.fill_diagonal(D, np.inf)
    cutsq = case["cuts"] * case["scale"] ** 2 if case["mode"] == "cutoff" else None
    # absolute rounding level of a squared distance computed as |a|^2 + |b|^2 - 2ab
    ta = 1e-12 * max(float((X**2).sum(axis=1).max()), 1e-300) if cell is None else 1e-12 * float((cell**2).sum())
    record, graphs = [], []
    q = j.lib("fit", _fit, case, X, w, None, record, graphs)
    if case.get("bystander") and cell is None:
        j.note("free_space_fits_next_to_a_periodic_bystander")
    if case.get("wdtype") and n < 250:
        j.note("weights_as_ranks_in_another_dtype")
        if "+2^" in case["wdtype"]:
            j.note("integer_weights_beyond_2^53")
    if case.get("failed_fit"):
        j.note("legal_fits_after_refused_fits")
    if cell is not None:
        j.note("periodic_fits")
        if case.get("cell_set", "ctor") != "ctor":
            j.note("cell_given_after_construction")
    labels = np.asarray(q.labels_)
    centres = [int(c) for c in q.cluster_centers_idx_]
    if case.get("refit"):
        # an estimator with a past: the same object fitted on other data and then on these data again; the second
        # life is judged (pointer events, graph, labels), and must reproduce the first
        rng2 = np.random.default_rng(n)
        j.lib("fit:other-data", _fit, case, case["X_other"], rng2.permutation(n).astype(float), None, None, None, q)
        record, graphs = [], []
        q = j.lib("fit:again", _fit, case, X, w, None, record, graphs, q)
        j.ok("re-fitting the same estimator on the same data reproduces labels_ and centres", np.array_equal(labels, np.asarray(q.labels_)) and centres == [int(c) for c in q.cluster_centers_idx_], lambda: {"first": labels.tolist(), "again": np.asarray(q.labels_).tolist()})
        labels = np.asarray(q.labels_)
        centres = [int(c) for c in q.cluster_centers_idx_]
        j.note("refitted_estimators")
    G = None
    if case["mode"] == "gabriel":
        must, may = _brute_gabriel(D, ta)
        gab_ambiguous = bool((must != may).any())
        G = may
        if graphs:
            Gu = np.asarray(graphs[0], bool)
            good = Gu.shape == must.shape and bool(np.all(Gu[must]) and not np.any(Gu & ~may)) and np.array_equal(Gu, Gu.T)
            j.ok("Gabriel graph used == brute-force definition (no third point strictly inside the edge's ball)", good, lambda: {"missing_edges": int((must & ~Gu).sum()), "spurious_edges": int((Gu & ~may).sum())})
            j.note("gabriel_graphs_checked")
            if gab_ambiguous:
                j.note("gabriel_graphs_with_boundary_points")
            if good:
                G = Gu  # successor sets follow the graph that was used (it is a valid Gabriel graph)
        else:
            j.note("gabriel_hook_not_reached")
    # ---- pointer events
    succ = {}
    ptr = {}
    for i, nx in record:
        if i not in succ:
            succ[i] = _successors(D, w, i, case, G, cutsq, ta)
        j.ok("every move goes to the nearest strictly higher-weight neighbour the rule allows (or stays)", nx in succ[i], lambda: {"point": i, "moved_to": nx, "allowed": sorted(succ[i]), "w_i": float(w[i]), "w_next": float(w[nx])})
        ptr[i] = nx
        j.note("pointer_events")
    # ---- labels
    j.ok("labels_ has one entry per point", labels.shape == (n,), labels.shape)
    j.ok("every label is a cluster centre", set(int(l) for l in labels) == set(centres), (sorted(set(int(l) for l in labels)), centres))
    j.ok("every centre labels itself", all(labels[c] == c for c in centres))
    j.close("cluster_centers_ are the centre points", q.cluster_centers_, X[centres], 0.0)
    j.ok("the highest-weight point is a centre", int(np.argmax(w)) in centres, (int(np.argmax(w)), centres))
    allsucc = {i: succ.get(i) or _successors(D, w, i, case, G, cutsq, ta) for i in range(n)}
    for c in centres:
        j.ok("a centre has no admissible higher-weight successor", c in allsucc[c], lambda: {"centre": c, "allowed": sorted(allsucc[c])})
    long_path = False
    if len(ptr) == n:
        for i in range(n):
            k, steps = i, 0
            while ptr[k] != k and steps <= n:
                k = ptr[k]
                steps += 1
            long_path |= steps >= 2
            if steps > int(np.log2(max(n, 2))) + 1:
                j.note("ascent_paths_longer_than_log2_n_plus_1")
            if not j.ok("every point is labelled with the centre its recorded path reaches", labels[i] == k, lambda: {"point": i, "label": int(labels[i]), "reached": k}):
                break
    else:
        j.note("pointer_hook_incomplete")
    tie_free = all(len(s) == 1 for s in allsucc.values()) and not (case["mode"] == "gabriel" and gab_ambiguous)
    if tie_free:
        # unique ascent graph: the partition is determined
        root = {}
        for i in np.argsort(-w):
            nx = next(iter(allsucc[int(i)]))
            root[int(i)] = int(i) if nx == int(i) else root[nx]
        j.ok("labels == basins of the brute-force ascent graph", all(labels[i] == root[i] for i in range(n)), lambda: {"labels": labels.tolist(), "oracle": [root[i] for i in range(n)]})
        j.note("tie_free_relation_cases")
        ref = {frozenset(v) for v in _partition(labels).values()}
        # -- input order
        if case["exhaustive_perm"]:
            perms = [np.array(p) for p in itertools.permutations(range(n))]
        else:
            perms = case["perms"]
        for pm in perms:
            qq = _fit(case, X[pm], w[pm], None if case["mode"] != "cutoff" else case["cuts"][pm])
            part = {frozenset(int(pm[i]) for i in v) for v in _partition(qq.labels_).values()}
            if not j.ok("partition independent of the input order", part == ref, lambda: {"perm": pm.tolist()}):
                break
            j.note("permutation_fits")
        # -- strictly increasing re-maps of the weights
        for nm, f in (("affine", lambda v: 3.0 * v - 7.0), ("exp", lambda v: np.exp(v / max(n, 1))), ("rank", lambda v: np.argsort(np.argsort(v)).astype(float))):
            qq = _fit(case, X, f(w))
            j.ok(f"partition independent of a strictly increasing re-mapping of the weights [{nm}]", {frozenset(v) for v in _partition(qq.labels_).values()} == ref)
        # -- periodic images
        if cell is not None:
            Xs = X + case["shifts"] * cell
            Ds = _dist2(Xs, cell)
            np.fill_diagonal(Ds, np.inf)
            if np.allclose(Ds[np.isfinite(Ds)], D[np.isfinite(D)], rtol=1e-9, atol=1e-9 * float(cell.max()) ** 2):
                qq = _fit(case, Xs, w)
                j.ok("partition independent of periodic images", {frozenset(v) for v in _partition(qq.labels_).values()} == ref)
    j.nontrivial = len(centres) > 1 and long_path
    j.sample = {"n": n, "dim": d, "mode": case["mode"], "data": case["kind"], "periodic": cell is not None, "shell": case.get("shell"), "scale": case.get("scale"), "centres": centres[:10], "pointer_events": len(record), "tie_free": tie_free, "all_orders": case["exhaustive_perm"]}


def evidence_extra(recs, tier):
    return {"exhaustive_subspace": f"all {PERM_N[tier]}! input orders of {PERM_SETS[tier]} point sets (complete); everything else sampled"}
