"""C13 - reconstruction measures vanish on contained information, isometry invariant.

Monitor: return values of the eight public functions on paired (transformed) inputs.
Oracle: algebraic identities and metamorphic relations (rotation / reflection /
rescaling / shift of either space), root-mean-square consistency, planted linear and
orthogonal maps.
"""

from __future__ import annotations

import numpy as np

from .. import forms, gens
from ..common import Skip, brief

ID = "C13"
CASES = {"quick": 480, "thorough": 6000}
FLOOR = {"quick": 420, "thorough": 5500}
FLOOR_COUNTERS = {
    "quick": {"lre_calls_with_more_than_2^24_pairs": 1, "relations_judged": 6000, "x_wider_cases": 50, "x_narrower_cases": 50, "lre_calls": 900, "grd_calls": 800, "overlapping_index_cases": 50, "planted_map_cases": 60, "reference_implementations_judged": 250, "large_offset_shift_relations": 100, "integer_typed_inputs": 150, "target_rotations_with_default_scoring": 150, "index_arrays_reused_on_other_data": 20, "parallel_lre_calls": 20, "weak_direction_planted_maps": 15, "reused_estimators_with_a_refused_call": 30, "shared_scaler_objects": 60},
    "thorough": {"lre_calls_with_more_than_2^24_pairs": 1, "relations_judged": 80000, "x_wider_cases": 600, "x_narrower_cases": 600, "lre_calls": 12000, "grd_calls": 10000, "overlapping_index_cases": 700, "planted_map_cases": 800, "reference_implementations_judged": 3500, "large_offset_shift_relations": 1200, "integer_typed_inputs": 2000, "target_rotations_with_default_scoring": 2000, "index_arrays_reused_on_other_data": 280, "parallel_lre_calls": 300, "weak_direction_planted_maps": 200, "reused_estimators_with_a_refused_call": 400, "shared_scaler_objects": 800},
}
RULE = (
    "case = X, Y with equal sample count (12-60) and feature counts 2-8 on each side (X wider / equal / narrower by "
    "round-robin; float or integer-typed), index choice default | explicit disjoint | overlapping | identical | counted from the end "
    "(the same index arrays re-used on longer data), estimator default | Ridge2FoldCV(MSE) | "
    "Ridge(alpha), scaler default | user, n_local_points 2..n_train; ~20 relations per case. non-trivial = X and Y of "
    "different width or explicit indices; distinct by data hash."
)
RULE = RULE + " " + 'Every case with >= 4 training points also evaluates LRE with a scale-only user scaler (all and some training points as neighbours) against the explicit centred local ridge; the last case of a run is one LRE call on 4200 x 4000 points (tight group far from the bulk).'
ASSUMPTIONS = [
    "planted-map identities use cond(X) <= 1e3",
    "rotation of the target space is judged only with rotation-invariant model selection (single alpha or MSE scoring), as the property states",
    "invariance tolerance 1e-6 x max(1, value); zero claims 1e-8",
    "exact ties between different kept-sets in the cross-validation of the default estimator have measure zero on continuous data",
]


def _run_huge(case, j):
    """LRE with more than 2^24 test x training pairs (4200 x 4000): a bulk of ordinary samples and a small, tight
    group far away from it, whose members have their nearest neighbours inside the group; judged by the explicit
    k-nearest-neighbour local ridge on directly computed coordinate differences."""
    from sklearn.linear_model import Ridge

    from skmatter import metrics as M

    rg = np.random.default_rng(case["seed"])
    ntr, nte, nfar, k, alpha = 4200, 4000, 50, 6, 1e-8
    n = ntr + nte
    X = rg.normal(size=(n, 2))
    far = np.r_[0:nfar, ntr : ntr + nfar]
    X[far] = 40.0 + 0.005 * rg.random(size=(2 * nfar, 2))
    Y = np.column_stack([np.sin(300 * (X[:, 0] - 40)), np.cos(300 * (X[:, 1] - 40))])
    tr, te = np.arange(ntr), np.arange(ntr, n)
    j.tag("pairs:more_than_2^24", "Xequal")

    def scale(A_tr, A_te):
        mu = A_tr.mean(axis=0)
        sd = np.sqrt(((A_tr - mu) ** 2).mean(axis=0).sum())
        return (A_tr - mu) / sd, (A_te - mu) / sd

    Xa, Xb = scale(X[tr], X[te])
    Ya, Yb = scale(Y[tr], Y[te])
    got = np.asarray(j.lib("pointwise LRE (4200 x 4000)", M.pointwise_local_reconstruction_error, X, Y, k, train_idx=tr, test_idx=te, estimator=Ridge(alpha=alpha, fit_intercept=False)))
    ref, ok = np.zeros(nte), np.ones(nte, bool)
    for i in range(nte):
        d2 = ((Xa - Xb[i]) ** 2).sum(axis=1)
        order = np.argpartition(d2, k)[: k + 1]
        order = order[np.argsort(d2[order])]
        if d2[order[k]] - d2[order[k - 1]] <= 1e-6 * d2[order[k]]:
            ok[i] = False
            continue
        nb = order[:k]
        mx, my = Xa[nb].mean(axis=0), Ya[nb].mean(axis=0)
        A0 = Xa[nb] - mx
        W0 = np.linalg.solve(A0.T @ A0 + alpha * np.eye(2), A0.T @ (Ya[nb] - my))
        ref[i] = np.linalg.norm(Yb[i] - (my + (Xb[i] - mx) @ W0))
    # a local fit on six nearly collinear neighbours can be ill-conditioned: judged where the ridge system is not
    j.close("pointwise LRE == explicit k-nearest-neighbour local ridge reconstruction (more than 2^24 pairs)", got[ok], ref[ok], 1e-5 * max(1.0, float(ref[ok].max())))
    j.close("LRE == root mean square of the pointwise values (more than 2^24 pairs)", float(M.local_reconstruction_error(X, Y, k, train_idx=tr, test_idx=te, estimator=Ridge(alpha=alpha, fit_intercept=False))), float(np.sqrt(np.mean(got**2))), 1e-9)
    j.note("lre_calls_with_more_than_2^24_pairs")
    j.nontrivial = True
    j.sample = {"train": ntr, "test": nte, "k": k, "judged_points": int(ok.sum())}


def gen(rng, tier, index):
    if index == CASES[tier] - 1:
        return {"huge": True, "seed": int(rng.integers(1 << 30))}
    n = int(rng.integers(12, 45 if tier == "quick" else 90))
    f = int(rng.integers(2, 9))
    rel = index % 3
    p = {0: int(rng.integers(2, 9)), 1: f, 2: f}[rel]
    if rel == 0 and p == f:
        p = f + 1 if f < 8 else f - 1
    X = gens.well_conditioned(rng, n, f, cond=float(10.0 ** rng.uniform(0, 3))) * np.sqrt(n) if n > f else rng.normal(size=(n, f))
    X = X + rng.normal(size=f) * float(gens.pick(rng, (0.0, 1.0, 5.0)))
    Y = np.tanh(X @ rng.normal(size=(f, p))) + 0.2 * rng.normal(size=(n, p)) + rng.normal(size=p)
    idx = gens.pick(rng, ("default", "default", "disjoint", "overlap", "identical", "train_only", "test_only", "from_the_end", "shuffled", "bootstrap"))
    perm = rng.permutation(n)
    tr = te = None
    if idx == "disjoint":
        c = int(rng.integers(n // 3, 2 * n // 3))
        tr, te = np.sort(perm[:c]), np.sort(perm[c:])
    elif idx == "overlap":
        tr, te = np.sort(perm[: 2 * n // 3]), np.sort(perm[n // 3 :])
    elif idx == "identical":
        tr = te = np.sort(perm[: max(8, n // 2)])
    elif idx == "from_the_end":  # both index sets counted from the end of the data, as plain integer ndarrays
        c = int(rng.integers(n // 3, 2 * n // 3))
        tr, te = np.sort(perm[:c]) - n, np.sort(perm[c:]) - n
    elif idx == "shuffled":  # explicit sets in arbitrary (not ascending) order: results come back in the order asked for
        c = int(rng.integers(n // 3, 2 * n // 3))
        tr, te = perm[:c].copy(), perm[c:].copy()
    elif idx == "bootstrap":  # a training set drawn with replacement, a test set that names a sample twice
        tr = rng.integers(0, n, size=max(8, 2 * n // 3))
        te = rng.integers(0, n, size=max(4, n // 3))
        te[-1] = te[0]
    elif idx == "train_only":
        tr = np.sort(perm[: n // 2])
    elif idx == "test_only":
        te = np.sort(perm[: n // 2])
    dt = [gens.pick(rng, ("float64", "float64", "float64", "int64", "int32")) for _ in range(2)]
    if dt[0] != "float64":  # integer-typed data (counts, grid coordinates): still well conditioned
        X = np.round(X * 20000).astype(dt[0])
    if dt[1] != "float64":
        Y = np.round(Y * 20000).astype(dt[1])
    return {
        "X": X,
        "Y": Y,
        "dtypes": dt,
        "extra_rows": int(rng.integers(1, 12)),
        "rot_scoring": gens.pick(rng, ("neg_mean_squared_error", None)),
        "n_jobs": 2 if index % 16 == 5 else None,  # the local measure's public parallel entry
        "reused_estimator": bool(rng.random() < 0.6),
        "shared_scaler": bool(rng.random() < 0.5),
        "nearly_collinear": {"delta": float(10.0 ** rng.uniform(-6, -3)), "noise": rng.normal(size=n), "A": rng.normal(size=(f, 3)), "a": rng.normal(size=3)} if index % 5 == 2 else None,
        "idx": idx,
        "train_idx": tr,
        "test_idx": te,
        "est": gens.pick(rng, ("default", "r2f_mse", "ridge", "ridge")),
        "lre_subset": [int(v) for v in rng.permutation(5)[:2]],
        "scaler": gens.pick(rng, ("default", "colwise")),
        "Q": gens.orthogonal(rng, f),
        "R": gens.orthogonal(rng, p),
        "A": [rng.normal(size=(f, w)) for w in (max(1, f - 2), f, f + 3)],
        "cx": float(gens.pick(rng, (-1, 1)) * 10.0 ** rng.uniform(-2, 2)),
        "cy": float(10.0 ** rng.uniform(-2, 2)),
        "bx": rng.normal(size=f) * 3 * (1.0 if rng.random() < 0.6 else float(10.0 ** rng.uniform(2, 7))),
        "by": rng.normal(size=p) * 3 * (1.0 if rng.random() < 0.6 else float(10.0 ** rng.uniform(2, 7))),
        "u": float(rng.random()),
        "alpha": float(10.0 ** rng.uniform(-4, -1)),
    }


def _est(kind, alpha, scoring="neg_mean_squared_error"):
    from sklearn.linear_model import Ridge

    from skmatter.linear_model import Ridge2FoldCV

    if kind == "default":
        return None
    if kind == "ridge":
        return Ridge(alpha=alpha, fit_intercept=False)
    return Ridge2FoldCV(alphas=np.geomspace(1e-9, 0.9, 20), alpha_type="relative", regularization_method="cutoff", random_state=0, shuffle=True, scoring=scoring)


def _scaler(kind):
    from skmatter.preprocessing import StandardFlexibleScaler

    return None if kind == "default" else StandardFlexibleScaler(column_wise=True)


def run(case, j):
    if case.get("huge"):
        return _run_huge(case, j)
    from skmatter import metrics as M

    X, Y = case["X"], case["Y"]
    n, f = X.shape
    p = Y.shape[1]
    if case.get("dtypes", ["float64"] * 2) != ["float64", "float64"]:
        j.note("integer_typed_inputs")
        j.tag("dtype:integer")
    idx_before = [None if a is None else np.array(a, copy=True) for a in (case["train_idx"], case["test_idx"])]
    j.tag(f"X{'wider' if f > p else ('narrower' if f < p else 'equal')}", f"idx:{case['idx']}", f"est:{case['est']}", f"scaler:{case['scaler']}")
    if f > p:
        j.note("x_wider_cases")
    elif f < p:
        j.note("x_narrower_cases")
    if case["idx"] in ("overlap", "identical"):
        j.note("overlapping_index_cases")
    ikw = {}
    if case["train_idx"] is not None:
        ikw["train_idx"] = case["train_idx"]
    if case["test_idx"] is not None:
        ikw["test_idx"] = case["test_idx"]
    ntr = len(case["train_idx"]) if case["train_idx"] is not None else (n - len(case["test_idx"]) if case["test_idx"] is not None else n // 2)
    nloc = int(2 + case["u"] * (ntr - 2))

    def kw():
        return dict(ikw, estimator=_est(case["est"], case["alpha"]), scaler=_scaler(case["scaler"]))

    def kw_rot():  # rotation-invariant model selection
        # scoring=None is documented as the (negative) mean squared error
        return dict(ikw, estimator=_est("ridge" if case["est"] == "ridge" else "r2f_mse", case["alpha"], case.get("rot_scoring", "neg_mean_squared_error")), scaler=_scaler("default"))

    # a shift by b perturbs the data by eps*|b| in absolute terms; an ill-posed fit (training folds with
    # fewer rows than features, cut-off regularisation down to 1e-9) amplifies that without bound, so the
    # large-offset relations are only judged when both CV folds of the training part are tall
    ntr_eff = len(case["train_idx"]) if case["train_idx"] is not None else (n - len(case["test_idx"]) if case["test_idx"] is not None else n // 2)
    well_posed = ntr_eff >= 2 * max(f, p) + 4
    fams = {
        "GRE": (M.global_reconstruction_error, M.pointwise_global_reconstruction_error, {}),
        "GRD": (M.global_reconstruction_distortion, M.pointwise_global_reconstruction_distortion, {}),
        "LRE": (M.local_reconstruction_error, M.pointwise_local_reconstruction_error, {"n_local_points": nloc}),
    }
    base = {}
    for nm, (g, pw, extra) in fams.items():
        # ---- defined for every pair of feature dimensions; rms consistency; non-negativity
        v = j.lib(f"{nm}(X,Y)", g, X, Y, **extra, **kw())
        pv = np.asarray(j.lib(f"pointwise {nm}(X,Y)", pw, X, Y, **extra, **kw()))
        j.note("lre_calls" if nm == "LRE" else ("grd_calls" if nm == "GRD" else "gre_calls"), 2)
        j.ok(f"{nm}: finite scalar", np.ndim(v) == 0 and np.isfinite(v), v)
        j.ok(f"pointwise {nm} non-negative and finite", bool(np.all(pv >= 0) and np.all(np.isfinite(pv))), float(pv.min()))
        j.close(f"{nm} == root mean square of its pointwise values", v, np.sqrt(np.mean(pv**2)), 1e-10 * max(1.0, abs(v)))
        nte = len(case["test_idx"]) if case["test_idx"] is not None else (n - len(case["train_idx"]) if case["train_idx"] is not None else None)
        if nte is not None:
            j.ok(f"pointwise {nm}: one value per test sample", pv.shape == (nte,), (pv.shape, nte))
        base[nm] = v
        j.note("relations_judged", 3)
        # ---- invariances of the source / target space
        variants = {
            "source rotated/reflected": (X @ case["Q"], Y, kw),
            "source rescaled": (X * case["cx"], Y, kw),
            "source shifted": (X + case["bx"], Y, kw),
            "target rescaled": (X, Y * case["cy"], kw),
            "target shifted": (X, Y + case["by"], kw),
        }
        if case["scaler"] == "colwise":
            variants.pop("source rotated/reflected")  # a column-wise scaler is not rotation invariant
        for vi, (lab, (a, b, k)) in enumerate(variants.items()):
            if nm == "LRE" and vi not in (case["lre_subset"] if case["est"] == "ridge" else case["lre_subset"][:1]):
                continue  # the local measure refits per test point: a subset of the five relations per case
            if nm == "LRE" and case["idx"] == "bootstrap" and case["est"] != "ridge":
                continue  # repeated training rows are exact distance ties: which copy enters which CV fold of the local fit is decided by rounding
            big = (float(np.abs(case["bx"]).max()) if "source" in lab else float(np.abs(case["by"]).max())) if "shifted" in lab else 0.0
            if big > 100 and (not well_posed or nm == "LRE"):
                # fall back to an O(1) shift of the same direction (LRE: neighbour ranks must not be touched by rounding)
                shrink = 3.0 / big
                a = X + case["bx"] * shrink if "source" in lab else a
                b = Y + case["by"] * shrink if "target" in lab else b
                big = 3.0
            w = g(a, b, **extra, **k())
            if big > 100:
                j.note("large_offset_shift_relations")
            # a shift by b loses eps*|b| of absolute precision in the data itself
            j.close(f"{nm} unchanged: {lab}", w, v, (1e-6 + 1e-12 * big) * max(1.0, abs(v)))
            j.note("relations_judged")
        if nm == "LRE" and case["est"] != "ridge":
            continue
        v0 = g(X, Y, **extra, **kw_rot())
        w0 = g(X, Y @ case["R"], **extra, **kw_rot())
        j.close(f"{nm} unchanged: target rotated (rotation-invariant model selection)", w0, v0, 1e-6 * max(1.0, abs(v0)))
        j.note("relations_judged")
        if case["est"] != "ridge" and case.get("rot_scoring", 0) is None:
            j.note("target_rotations_with_default_scoring")
    # ---- contained information
    tr_eff = case["train_idx"] if case["train_idx"] is not None else (np.setdiff1d(np.arange(n), case["test_idx"]) if case["test_idx"] is not None else None)
    Xt = X if tr_eff is None else X[tr_eff]
    enough = (n // 2 if tr_eff is None else len(tr_eff)) >= 2 * f + 4  # both CV folds of the training part have full column rank
    if enough and np.linalg.cond(Xt - Xt.mean(0)) <= 1e3 and case["scaler"] == "default":
        j.note("planted_map_cases")
        for A in case["A"]:
            z = M.global_reconstruction_error(X, X @ A, **dict(ikw))
            j.ok("GRE(X, X A) vanishes for a linear map A", z <= 1e-8, {"value": float(z), "A": A.shape})
            j.note("relations_judged")
        # a user estimator object that is re-used, with a refused call in its history: a local-measure call with a misspelt
        # option raises inside the estimator's fit; the option is corrected and the same object serves the next call
        if case.get("reused_estimator"):
            from skmatter.linear_model import Ridge2FoldCV as _R2F

            ue = _R2F(alphas=np.geomspace(1e-9, 0.9, 20), alpha_type="relative", regularization_method="cut-off", random_state=0, shuffle=True)
            p0 = {k_: repr(v_) for k_, v_ in ue.get_params().items()}
            if forms.rejected(j, "local measure with a misspelt option of the user's estimator", M.local_reconstruction_error, X, Y, max(2, nloc // 2), estimator=ue, **dict(ikw)):
                p1 = {k_: repr(v_) for k_, v_ in ue.get_params().items()}
                j.ok("a refused call leaves the user's estimator object as it was", p0 == p1, {k_: (p0[k_], p1[k_]) for k_ in p0 if p0[k_] != p1[k_]})
                ue.regularization_method = "cutoff"
                zz = j.lib("GRE with the re-used estimator", M.global_reconstruction_error, X, X @ case["A"][1], estimator=ue, **dict(ikw))
                j.ok("GRE(X, X A) vanishes with a user estimator that was refused a call before", zz <= 1e-8, float(zz))
                j.note("reused_estimators_with_a_refused_call")
        z = M.global_reconstruction_distortion(X, X @ case["Q"], **dict(ikw))
        j.ok("GRD(X, X Q) vanishes for orthogonal Q", z <= 1e-8, float(z))
        j.note("relations_judged")
    # ---- contained information in a weak direction: two nearly (not exactly) collinear source columns, and a target that
    #      lives on their difference; X still has full column rank, so the target is a linear function of X
    nc = case.get("nearly_collinear")
    fc = min(f, 3)
    if nc is not None and fc >= 2 and n >= 4 * fc + 8:
        Xc = np.array(X[:, :fc], dtype=float, copy=True)
        Xc[:, -1] = Xc[:, -2] + nc["delta"] * np.std(Xc[:, -2]) * nc["noise"]
        Ac = np.array(nc["A"][:fc], copy=True)
        Ac[-2] = nc["a"] / nc["delta"]
        Ac[-1] = -Ac[-2] + nc["A"][fc - 1]
        if np.linalg.cond(Xc[:, :-1] - Xc[:, :-1].mean(0)) <= 1e2:
            z = j.lib("GRE(Xc, Xc A)", M.global_reconstruction_error, Xc, Xc @ Ac)
            j.ok("GRE(X, X A) vanishes also when A lives on a weak (nearly collinear) direction of X", z <= 1e-6, {"value": float(z), "delta": nc["delta"]})
            j.note("weak_direction_planted_maps")
            j.note("relations_judged")
    # ---- on the training set GRE <= 1
    tr = case["train_idx"] if case["train_idx"] is not None else np.arange(n)
    gtr = M.global_reconstruction_error(X, Y, train_idx=tr, test_idx=tr, estimator=_est(case["est"], case["alpha"]))
    j.ok("GRE evaluated on the training set never exceeds 1", gtr <= 1 + 1e-9, float(gtr))
    # ---- LRE with all training points as neighbours == pointwise GRE
    from sklearn.linear_model import Ridge

    e = lambda: Ridge(alpha=case["alpha"], fit_intercept=False)  # noqa: E731
    te = case["test_idx"] if case["test_idx"] is not None else np.setdiff1d(np.arange(n), tr)
    if len(te) and len(tr) >= 2:
        a = M.pointwise_local_reconstruction_error(X, Y, len(tr), train_idx=tr, test_idx=te, estimator=e())
        b = M.pointwise_global_reconstruction_error(X, Y, train_idx=tr, test_idx=te, estimator=e())
        j.close("LRE with all training points as neighbours == pointwise GRE", a, b, 1e-8 * max(1.0, float(np.abs(b).max())))
        j.note("relations_judged")
    if len(te) and len(tr) >= 4:
        # a user scaler that only rescales (with_mean=False): the local fit still centres on the neighbourhood - here on
        # all training points - so the value is the explicit centred ridge on the merely rescaled data
        from skmatter.preprocessing import StandardFlexibleScaler as _SFS

        def scale_only(A_tr, A_te):
            sd = np.sqrt(((A_tr - A_tr.mean(axis=0)) ** 2).mean(axis=0).sum())
            return A_tr / sd, A_te / sd

        Xa0, Xb0 = scale_only(X[tr] * 1.0, X[te] * 1.0)
        Ya0, Yb0 = scale_only(Y[tr] * 1.0, Y[te] * 1.0)
        for kk_ in sorted({len(tr), max(2, min(nloc, len(tr)))}):
            D2_ = ((Xb0[:, None, :] - Xa0[None, :, :]) ** 2).sum(-1)
            ref0, uniq_ = np.zeros(len(te)), True
            for i in range(len(te)):
                order = np.argsort(D2_[i])
                if kk_ < len(tr) and D2_[i][order[kk_]] - D2_[i][order[kk_ - 1]] <= 1e-9 * max(D2_[i][order[kk_]], 1e-300):
                    uniq_ = False
                nb = order[:kk_]
                mx0, my0 = Xa0[nb].mean(axis=0), Ya0[nb].mean(axis=0)
                A0 = Xa0[nb] - mx0
                W0 = np.linalg.solve(A0.T @ A0 + case["alpha"] * np.eye(f), A0.T @ (Ya0[nb] - my0))
                ref0[i] = np.linalg.norm(Yb0[i] - (my0 + (Xb0[i] - mx0) @ W0))
            if uniq_:
                got0 = j.lib("pointwise LRE with a scale-only scaler", M.pointwise_local_reconstruction_error, X, Y, kk_, train_idx=tr, test_idx=te, estimator=e(), scaler=_SFS(with_mean=False))
                j.close("pointwise LRE with a scale-only user scaler == explicit centred local ridge on the rescaled data", got0, ref0, 1e-7 * max(1.0, float(ref0.max())), {"k": kk_, "n_train": len(tr)})
                j.note("lre_calls")
                j.note("scale_only_scalers_judged")
        j.note("lre_calls")
    # ---- explicit reference implementation of the documented definitions (Ridge, default scaler)
    if len(te) and len(tr) >= 4:
        from scipy.linalg import orthogonal_procrustes

        def scale(A_tr, A_te):
            mu = A_tr.mean(axis=0)
            sd = np.sqrt(((A_tr - mu) ** 2).mean(axis=0).sum())
            return (A_tr - mu) / sd, (A_te - mu) / sd

        def ridge(A, B):
            return np.linalg.solve(A.T @ A + case["alpha"] * np.eye(A.shape[1]), A.T @ B)

        Xa, Xb = scale(X[tr], X[te])
        Ya, Yb = scale(Y[tr], Y[te])
        W = ridge(Xa, Ya)
        ref_gre = np.linalg.norm(Yb - Xb @ W, axis=1)
        got = M.pointwise_global_reconstruction_error(X, Y, train_idx=tr, test_idx=te, estimator=e())
        j.close("pointwise GRE == explicit scaled ridge reconstruction error", got, ref_gre, 1e-8 * max(1.0, float(ref_gre.max())))
        if case.get("shared_scaler") and len(tr) >= f + 4 and np.linalg.cond(Xa) <= 1e4:
            # ONE scaler object serves as `scaler=` and as the first step of the user's pipeline estimator
            from sklearn.linear_model import LinearRegression as _LR
            from sklearn.pipeline import make_pipeline

            from skmatter.preprocessing import StandardFlexibleScaler as _SFS

            ss_ = _SFS(column_wise=False)
            got_p = j.lib("pointwise GRE with a shared scaler object", M.pointwise_global_reconstruction_error, X, Y, train_idx=tr, test_idx=te, scaler=ss_, estimator=make_pipeline(ss_, _LR()))
            B_ = np.linalg.lstsq(np.hstack([Xa, np.ones((len(Xa), 1))]), Ya, rcond=None)[0]
            ref_p = np.linalg.norm(Yb - np.hstack([Xb, np.ones((len(Xb), 1))]) @ B_, axis=1)
            j.close("pointwise GRE with one scaler object in both roles == explicit scaled least squares", got_p, ref_p, 1e-7 * max(1.0, float(ref_p.max())))
            j.note("shared_scaler_objects")
        mc = max(f, p)
        Om = orthogonal_procrustes(np.pad(Xa, [(0, 0), (0, mc - f)]), np.pad(Xa @ W, [(0, 0), (0, mc - p)]))[0]
        ref_grd = np.linalg.norm(np.pad(Xb @ W, [(0, 0), (0, mc - p)]) - np.pad(Xb, [(0, 0), (0, mc - f)]) @ Om, axis=1)
        got = M.pointwise_global_reconstruction_distortion(X, Y, train_idx=tr, test_idx=te, estimator=e())
        j.close("pointwise GRD == |linear prediction - best orthogonal map of the source onto that prediction|", got, ref_grd, 1e-7 * max(1.0, float(ref_grd.max())))
        k = min(nloc, len(tr))
        D2 = ((Xb[:, None, :] - Xa[None, :, :]) ** 2).sum(-1)
        ref_lre = np.zeros(len(te))
        unique_nb = True
        for i in range(len(te)):
            order = np.argsort(D2[i])
            if k < len(tr) and D2[i][order[k]] - D2[i][order[k - 1]] <= 1e-9 * max(D2[i][order[k]], 1e-300):
                unique_nb = False
            nb = order[:k]
            mx, my = Xa[nb].mean(axis=0), Ya[nb].mean(axis=0)
            Wl = ridge(Xa[nb] - mx, Ya[nb] - my)
            ref_lre[i] = np.linalg.norm(Yb[i] - (my + (Xb[i] - mx) @ Wl))
        if unique_nb:
            got = M.pointwise_local_reconstruction_error(X, Y, k, train_idx=tr, test_idx=te, estimator=e())
            j.close("pointwise LRE == explicit k-nearest-neighbour local ridge reconstruction", got, ref_lre, 1e-7 * max(1.0, float(ref_lre.max())))
            j.note("lre_calls")
            if case.get("n_jobs"):
                got2 = j.lib("pointwise LRE (n_jobs=2)", M.pointwise_local_reconstruction_error, X, Y, k, train_idx=tr, test_idx=te, estimator=e(), n_jobs=case["n_jobs"])
                j.close("pointwise LRE with n_jobs=2 == explicit reference", got2, ref_lre, 1e-7 * max(1.0, float(ref_lre.max())))
                g2 = j.lib("LRE (n_jobs=2)", M.local_reconstruction_error, X, Y, k, train_idx=tr, test_idx=te, estimator=e(), n_jobs=case["n_jobs"])
                j.close("LRE with n_jobs=2 == root mean square of the reference", g2, float(np.sqrt(np.mean(ref_lre**2))), 1e-7 * max(1.0, float(ref_lre.max())))
                j.note("parallel_lre_calls", 2)
        j.note("reference_implementations_judged")
        j.note("relations_judged", 3)
    # ---- the same index arrays used on a second data set: "the rows counted from the end" of longer data
    if case["idx"] == "from_the_end":
        k0 = case.get("extra_rows", 3)
        X2 = np.concatenate([X[:k0][::-1] * 3 + 1, X])  # other rows in front: the requested rows are the same ones
        Y2 = np.concatenate([Y[:k0][::-1] * 2 - 1, Y])
        for nm, pw in (("GRE", M.pointwise_global_reconstruction_error), ("GRD", M.pointwise_global_reconstruction_distortion)):
            a = np.asarray(j.lib(f"pointwise {nm}(X,Y) again", pw, X, Y, estimator=e(), **ikw))
            b = np.asarray(j.lib(f"pointwise {nm} on longer data", pw, X2, Y2, estimator=e(), **ikw))
            j.close(f"pointwise {nm}: indices counted from the end select the same rows of longer data (same index arrays re-used)", b, a, 1e-9 * max(1.0, float(np.abs(a).max())))
            j.note("relations_judged")
        j.note("index_arrays_reused_on_other_data")
    for nm_, a0, a1 in zip(("train_idx", "test_idx"), idx_before, (case["train_idx"], case["test_idx"])):
        if a0 is not None:
            j.ok("the caller's index arrays are what they were", np.array_equal(a0, a1), {nm_: (a0[:6], np.asarray(a1)[:6])})
    # ---- the two input checkers
    t1, t2, sc, es = M.check_global_reconstruction_measures_input(X, Y, case["train_idx"], case["test_idx"], None, None)
    j.ok("default inputs: indices in range, scaler and estimator supplied", len(t1) > 0 and len(t2) > 0 and max(t1.max(), t2.max()) < n and min(t1.min(), t2.min()) >= -n and sc is not None and es is not None)
    if case["train_idx"] is None and case["test_idx"] is None:
        j.ok("default split: disjoint halves", len(np.intersect1d(t1, t2)) == 0 and abs(len(t1) - len(t2)) <= 1, (len(t1), len(t2)))
    t1b, t2b, _, _ = M.check_local_reconstruction_measures_input(X, Y, nloc, case["train_idx"], case["test_idx"], None, None)
    j.ok("local checker returns the same default indices", np.array_equal(t1, t1b) and np.array_equal(t2, t2b))
    j.nontrivial = f != p or case["idx"] != "default"
    j.sample = {"X": str(X.shape), "Y": str(Y.shape), "indices": case["idx"], "estimator": case["est"], "scaler": case["scaler"], "n_local_points": nloc, "GRE": float(base["GRE"]), "GRD": float(base["GRD"]), "LRE": float(base["LRE"]), "GRE_on_training_set": float(gtr)}
