"""C18 - OrthogonalRegression yields an orthogonal map that is Procrustes-optimal.

Monitor: coef_, max_components_, predict of fitted estimators in both modes.
Oracle: orthogonality / partial-isometry algebra, training residual against competitor
orthogonal maps (Haar-random, rotations within the reduced spaces, small rotations of
the fitted solution), planted isometries that must be recovered.
"""

from __future__ import annotations

import numpy as np
from scipy.linalg import expm

from .. import forms, gens
from ..common import Skip, brief

ID = "C18"
CASES = {"quick": 3000, "thorough": 40000}
FLOOR = {"quick": 2700, "thorough": 36000}
FLOOR_COUNTERS = {
    "quick": {"reused_linear_estimator_objects": 250, "competitors_tried": 25000, "planted_maps": 400, "padded_fits": 1200, "projector_fits": 1200, "estimators_with_a_past": 900, "one_dimensional_targets": 50, "other_units": 600, "configured_by_attribute_assignment": 1000, "edge_shapes": 600, "reduced_space_checks": 900, "more_than_1024_samples": 30, "planted_rotations_near_identity": 150, "numpy_bool_flags": 600, "rejected_calls_in_the_history": 100},
    "thorough": {"reused_linear_estimator_objects": 3500, "competitors_tried": 350000, "planted_maps": 7000, "padded_fits": 16000, "projector_fits": 16000, "estimators_with_a_past": 12000, "one_dimensional_targets": 700, "other_units": 8000, "configured_by_attribute_assignment": 14000, "edge_shapes": 8000, "reduced_space_checks": 12000, "more_than_1024_samples": 500, "planted_rotations_near_identity": 2000, "numpy_bool_flags": 8000, "rejected_calls_in_the_history": 1300},
}
RULE = (
    "case = X (n 6-40, f 1-8), y (p 1-8; noisy linear, pure noise, or planted y = X A with A a (partial) isometry), mode "
    "padded | projector (a single target also as a 1-D vector), targets with offsets, X and y in other units (x 2^-40..2^19), 40% of the "
    "estimators with a past (fits with the two widths exchanged / enlarged, same padded size), linear estimator None | LinearRegression(+-intercept) | Ridge; competitors: 6 Haar-random orthogonal "
    "maps + small rotations exp(eps A) of the fitted one, eps in {1e-1,1e-2,1e-3}. non-trivial = f != p or planted; "
    "distinct by data+config hash."
)
ASSUMPTIONS = [
    "padded mode with f > p: no exact padded orthogonal map exists for generic X, so only optimality is judged there",
    "projector mode: admissible competitors are U R' Vt with the same reduced bases U, Vt as the fit (rotations between the reduced spaces)",
    "tolerances: orthogonality 1e-10, residual comparisons 1e-9 relative, planted recovery 1e-8 (cond(X) <= 1e3)",
]
RULE = RULE + " " + forms.RULE_SUFFIX
RULE = RULE + " " + 'One case in 7 (not planted): whole-number features handed over with an integer dtype next to real-valued targets.'


def gen(rng, tier, index):
    n = int(rng.integers(9, 41))
    f, p = int(rng.integers(1, 9)), int(rng.integers(1, 9))
    edge = gens.pick(rng, (None,) * 8 + ("one_sample", "two_samples", "constant_first_feature", "zero_first_feature"))
    many = index % 60 == 13  # more samples than an implementation would accumulate in one block (1024, 2048)
    if many:
        edge = None
        n = int(gens.pick(rng, (1300, 1500, 2500, 3000)))
    if edge == "one_sample":
        n = 1
    elif edge == "two_samples":
        n = 2
    rel = index % 3
    if rel == 0:
        p = f
    elif rel == 1 and f == p:
        p = f + 1
    X = gens.well_conditioned(rng, n, f, cond=1e2) * np.sqrt(n) if n > f else rng.normal(size=(n, f))
    if rng.random() < 0.5:
        X = X + rng.normal(size=f)
    if edge == "constant_first_feature":
        X[:, 0] = 1.0  # a bias column
    elif edge == "zero_first_feature":
        X[:, 0] = 0.0
    kind = gens.pick(rng, ("planted", "noisy", "noise", "planted_near_identity"))
    if many:
        kind = "noisy"
    A = None
    if kind == "planted":
        Q = gens.orthogonal(rng, max(f, p))
        A = Q[:f, :p]  # orthonormal rows if f <= p, orthonormal columns if f >= p
        y = X @ A
    elif kind == "planted_near_identity":  # the true map is a rotation by a tiny, but resolvable, angle
        p = f
        theta = float(10.0 ** rng.uniform(-9, -5))
        A = expm(theta * _skew(rng, f)) if f > 1 else np.eye(1)
        y = X @ A
        kind = "planted"
    elif kind == "noisy":
        y = X @ rng.normal(size=(f, p)) + 0.3 * rng.normal(size=(n, p))
        if many:  # ordered data: the last third follows another linear law, so no prefix determines the optimum
            cut_ = (2 * n) // 3
            y[cut_:] = X[cut_:] @ rng.normal(size=(f, p)) * 2.0 + 0.3 * rng.normal(size=(n - cut_, p))
    else:
        y = rng.normal(size=(n, p))
    if kind != "planted" and rng.random() < 0.4:  # targets with an offset: slope and raw correlation may disagree in sign
        y = y + rng.normal(size=p) * 10.0
        if rng.random() < 0.5:
            X = np.abs(X) + rng.uniform(0, 3, size=f)
    ux = uy = 1.0
    if rng.random() < 0.3:  # other units (exact powers of two); a planted isometry needs the same unit on both sides
        ux = float(2.0 ** int(rng.integers(-30, 20)))
        uy = ux if kind == "planted" else float(2.0 ** int(rng.integers(-40, 20)))
        X, y = X * ux, y * uy
    xint = None
    if index % 7 == 3 and kind != "planted" and ux == 1.0 and not many:
        # whole-number features (counts) handed over with an integer dtype, next to real-valued targets
        X = np.round(X * 8.0)
        xint = ("int64", "int32")[index % 2]
    return {
        "xint": xint,
        "edge": edge,
        "many": bool(many),
        "near_identity": bool(kind == "planted" and A is not None and p == f and f > 1 and float(np.abs(A - np.eye(f)).max()) < 1e-4),
        "carry": gens.pick(rng, forms.CARRY),
        "aborted_fit": bool(rng.random() < 0.5),
        "npflag": bool(rng.random() < 0.3),
        "how": gens.pick(rng, ("ctor", "ctor", "setattr", "setattr_after_decoy")),
        "units": [ux, uy],
        "y1d": bool(p == 1 and rng.random() < 0.6),
        "past": bool(rng.random() < 0.4),
        "X": X,
        "y": y,
        "A": A,
        "kind": kind,
        "projector": bool((index // 3) % 2) if not many else bool(index % 120 == 13 or index % 180 == 73),
        "est": gens.pick(rng, ("none", "lr", "lr_noint", "ridge")),
        "cseed": int(rng.integers(1 << 30)),
        "Z": rng.normal(size=(5, f)) * ux,
    }


def _linear(kind):
    from ..pc import AbortableLinearRegression as LinearRegression
    from ..pc import AbortableRidge as Ridge

    return {"none": None, "lr": LinearRegression(), "lr_noint": LinearRegression(fit_intercept=False), "ridge": Ridge(alpha=1e-3)}[kind]


def _skew(rng, r):
    B = rng.normal(size=(r, r))
    return (B - B.T) / 2


def run(case, j):
    from skmatter.linear_model import OrthogonalRegression

    X, y, A, Z = case["X"], case["y"], case["A"], case["Z"]
    n, f = X.shape
    p = y.shape[1]
    proj = case["projector"]
    j.tag("projector" if proj else "padded", f"f{'<' if f < p else ('=' if f == p else '>')}p", f"y:{case['kind']}", f"estimator:{case['est']}")
    rng = np.random.default_rng(case["cseed"])
    lin = _linear(case["est"]) if proj else None
    if lin is not None and case["cseed"] % 2:
        # the same estimator object has been used before, on other data of the same shape
        decoy = OrthogonalRegression(use_orthogonal_projector=True, linear_estimator=lin)
        decoy.fit(rng.normal(size=X.shape), rng.normal(size=y.shape))
        j.note("reused_linear_estimator_objects")
    how = case.get("how", "ctor")
    projflag = np.bool_(proj) if case.get("npflag") else proj  # a flag that comes out of a NumPy comparison
    if case.get("npflag"):
        j.note("numpy_bool_flags")
    if how == "ctor":
        est = OrthogonalRegression(use_orthogonal_projector=projflag, linear_estimator=lin)
    else:
        # the class has no set_params: an existing object is re-configured by assigning its public attributes
        from sklearn.linear_model import Ridge as _Ridge

        est = OrthogonalRegression(use_orthogonal_projector=not proj, linear_estimator=_Ridge(alpha=50.0)) if how == "setattr_after_decoy" else OrthogonalRegression()
        est.use_orthogonal_projector = projflag
        est.linear_estimator = lin
        j.note("configured_by_attribute_assignment")
    if case.get("many"):
        j.note("more_than_1024_samples")
    if case.get("near_identity"):
        j.note("planted_rotations_near_identity")
    edge = case.get("edge")
    if edge:
        j.note("edge_shapes")
        j.tag(f"edge:{edge}")
        A = None  # a planted map is not identifiable from rank-deficient X
    if case.get("past"):
        # the estimator itself has a past: fitted on other data with the same number of samples and the same padded
        # size, but the widths of the two sides exchanged / enlarged
        mc0 = max(f, p)
        for f0, p0 in ((p, f), (mc0, mc0)):
            j.lib("fit:decoy", est.fit, rng.normal(size=(n, f0)) * 3 + 1, rng.normal(size=(n, p0)) * 3 - 1)
            j.lib("predict:decoy", est.predict, rng.normal(size=(2, f0)))
        if n > 1 and np.ndim(y) == 2:  # and on a sibling of the judged data: same shapes, column means and column norms
            j.lib("fit:decoy", est.fit, forms.sibling(X, rng.normal(size=X.shape)), forms.sibling(y, rng.normal(size=y.shape)))
        j.note("estimators_with_a_past")
    yin = y[:, 0].copy() if (case.get("y1d") and proj) else y  # padded mode is defined for 2-D targets only
    if yin.ndim == 1:
        j.note("one_dimensional_targets")
    if case.get("units", [1.0, 1.0]) != [1.0, 1.0]:
        j.note("other_units")
    if case.get("aborted_fit") and proj and lin is not None and case.get("past"):
        # a failure in the history: the object was fitted before (other data); the fit on THESE data is aborted inside the
        # user's linear estimator and then simply repeated with the very same arguments
        from ..pc import _AbortableMixin

        _AbortableMixin._armed[0] = True
        forms.rejected(j, "fit aborted inside the linear estimator", est.fit, X, yin)
        _AbortableMixin._armed[0] = False
    Xfit = X
    if case.get("xint") and np.all(X == np.round(X)):
        Xfit = forms.as_integer(X, case["xint"])
        j.note("integer_typed_features_with_real_targets")
    j.lib("fit", est.fit, Xfit, yin)
    est = forms.carry(est, case.get("carry", "same"), j)  # what predicts afterwards may be a copy of what was fitted
    Om = np.asarray(est.coef_).T  # predict(x) = x_(padded) @ Om
    ny = max(float(np.linalg.norm(y)), 1e-300)
    if not proj:
        j.note("padded_fits")
        mc = max(f, p)
        j.ok("max_components_ == max(n_features, n_targets)", getattr(est, "max_components_", None) == mc, (getattr(est, "max_components_", None), f, p))
        if not j.ok("coef_ is max(f,p)-square", Om.shape == (mc, mc), Om.shape):
            j.sample = {"mode": "padded", "coef_shape": list(Om.shape)}
            return
        j.close("Omega^T Omega == I (orthogonal)", Om.T @ Om, np.eye(mc), 1e-10)
        Xp = np.pad(X, [(0, 0), (0, mc - f)])
        yp = np.pad(y, [(0, 0), (0, mc - p)])
        pred = np.asarray(est.predict(X))
        j.close("predict(X) == padded X @ Omega", pred, Xp @ Om, 1e-10 * max(float(np.abs(Xp).max()), 1e-300))
        res = float(np.linalg.norm(yp - Xp @ Om))
        from scipy.linalg import orthogonal_procrustes as _op

        comps = [gens.orthogonal(rng, mc) for _ in range(6)] + [Om @ expm(eps * _skew(rng, mc)) for eps in (1e-1, 1e-2, 1e-3)]
        comps.append(_op(Xp, yp)[0])  # the textbook optimum (polar factor of Xp^T yp), computed here
        for C in comps:
            rc = float(np.linalg.norm(yp - Xp @ C))
            j.ok("training residual no larger than for any other orthogonal matrix of the padded size", res <= rc + 1e-9 * (ny + rc), (res, rc))
            j.note("competitors_tried")
        pz = np.asarray(est.predict(Z))
        j.close("predict(Z) == zero-padded Z @ Omega on new data", pz, np.pad(Z, [(0, 0), (0, mc - f)]) @ Om, 1e-10 * max(float(np.abs(Z).max()), 1e-300))
        j.close("predictions keep the norm of their inputs", np.linalg.norm(pz, axis=1), np.linalg.norm(Z, axis=1), 1e-10 * max(float(np.abs(Z).max()), 1e-300) * 10)
        if A is not None and f <= p:
            j.ok("planted orthogonal map: training residual vanishes", res <= (1e-12 if case.get("near_identity") else 1e-8) * ny, (res, ny))
            j.close("planted map recovered on the range of X", Om[:f, :p], A, 1e-7)
            j.note("planted_maps")
    else:
        j.note("projector_fits")
        j.ok("coef_ has shape (n_targets, n_features)", Om.shape == (f, p), Om.shape)
        sv = np.linalg.svd(Om, compute_uv=False)
        r = min(f, p)
        j.close("non-zero singular values of Omega are 1 (partial isometry)", sv[:r], np.ones(r), 1e-10)
        pz = np.asarray(est.predict(Z))
        j.close("predict(Z) == Z @ Omega", pz.reshape(len(Z), -1), Z @ Om, 1e-12 * max(float(np.abs(Z).max()), 1e-300))
        j.ok("predictions never have a larger norm than their inputs", bool(np.all(np.linalg.norm(pz.reshape(len(Z), -1), axis=1) <= np.linalg.norm(Z, axis=1) * (1 + 1e-10))))
        # the reduced spaces are those of the CONFIGURED linear fit (scikit-learn's estimator, fitted here)
        from sklearn.linear_model import LinearRegression as _LR

        ref = _linear(case["est"]) or _LR()
        ref.fit(X, yin)
        Wref = np.reshape(ref.coef_.T, (f, -1))
        Ur, svr, Vtr = np.linalg.svd(Wref, full_matrices=False)
        if svr[r - 1] > 1e-8 * max(svr[0], 1e-300):
            out_cols = Om - Ur @ (Ur.T @ Om)
            out_rows = Om - (Om @ Vtr.T) @ Vtr
            j.ok("Omega acts between the reduced spaces of the configured linear fit", float(np.abs(out_cols).max()) <= 1e-8 and float(np.abs(out_rows).max()) <= 1e-8, {"outside_column_space": float(np.abs(out_cols).max()), "outside_row_space": float(np.abs(out_rows).max()), "estimator": case["est"]})
            j.note("reduced_space_checks")
        # reduced bases of the fitted map
        U, _, Vt = np.linalg.svd(Om, full_matrices=False)
        R0 = U.T @ Om @ Vt.T
        res = float(np.linalg.norm(y - X @ Om))
        from scipy.linalg import orthogonal_procrustes as _op

        comps = [gens.orthogonal(rng, r) for _ in range(6)] + [R0 @ expm(eps * _skew(rng, r)) for eps in (1e-1, 1e-2, 1e-3)]
        comps.append(_op(X @ U, y.reshape(n, -1) @ Vt.T)[0])  # the textbook optimum between the reduced spaces, computed here
        for Rc in comps:
            rc = float(np.linalg.norm(y - X @ (U @ Rc @ Vt)))
            j.ok("training residual no larger than for any other rotation between the reduced spaces", res <= rc + 1e-9 * (ny + rc), (res, rc))
            j.note("competitors_tried")
        if A is not None and case["est"] != "ridge":
            j.ok("planted (partial) isometry: training residual vanishes", res <= (1e-12 if case.get("near_identity") else 1e-8) * ny, (res, ny))
            j.close("planted map recovered", Om, A, 1e-7)
            j.note("planted_maps")
    j.nontrivial = f != p or A is not None
    j.sample = {"X": str(X.shape), "y": f"{y.shape} {case['kind']}", "mode": "projector" if proj else "padded", "estimator": case["est"], "coef_shape": list(np.shape(est.coef_)), "residual/|y|": float(res / ny)}
