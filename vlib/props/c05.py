"""C05 - KernelPCovR agrees with PCovR and its kernel plumbing; scores any held-out set.

Monitor: public transform / predict / score of paired fits (named vs precomputed
kernel, automatic vs manual centring, linear kernel vs sample-space PCovR, mixing=1 vs
kernel PCA) on held-out sets of size 1, < n, = n, > n.
Oracle: explicitly built kernels (sklearn pairwise_kernels), KernelNormalizer applied by
hand, feature-space centring of K_VV written out, the documented loss formula.
"""

from __future__ import annotations

import numpy as np

from .. import forms, gens, pc
from ..common import Skip, brief

ID = "C05"
CASES = {"quick": 3000, "thorough": 30000}
FLOOR = {"quick": 2200, "thorough": 22000}
FLOOR_COUNTERS = {
    "quick": {"least_squares_images_judged": 1800, "precomputed_regressions_from_the_raw_kernel": 180, "precomputed_regressions_without_weights": 120, "rejected_calls_in_the_history": 1000, "numpy_scalar_parameters": 500, "caller_buffers_overwritten_after_fit": 800, "fits_through_fit_transform": 500, "configured_not_by_constructor": 1500, "non_default_containers": 1000, "plumbing_pairs": 1000, "heldout_scores_judged": 900, "pcovr_equivalences": 90, "kpca_limits": 300, "heldout_size_gt_n": 150, "heldout_size_1": 100, "estimators_with_a_past": 300},
    "thorough": {"least_squares_images_judged": 18000, "precomputed_regressions_from_the_raw_kernel": 1800, "precomputed_regressions_without_weights": 1200, "rejected_calls_in_the_history": 12000, "numpy_scalar_parameters": 6000, "caller_buffers_overwritten_after_fit": 9000, "fits_through_fit_transform": 5000, "configured_not_by_constructor": 15000, "non_default_containers": 10000, "plumbing_pairs": 14000, "heldout_scores_judged": 12000, "pcovr_equivalences": 600, "kpca_limits": 4000, "heldout_size_gt_n": 2000, "heldout_size_1": 1500, "estimators_with_a_past": 3500},
}
RULE = (
    "case = X, Y (1-D/2-D), kernel in {linear, rbf, poly, sigmoid(small gamma), cosine} with gamma/degree/coef0, center, "
    "mixing, k, regressor in {None, KernelRidge unfitted, KernelRidge fitted, precomputed with consistent weights | without weights (raw targets) | with weights from the raw kernel}, held-out set of size 1 / <n / =n "
    "/ >n. Judged: named==precomputed kernel, center=True==manual KernelNormalizer, linear==sample-space PCovR+Ridge, "
    "mixing=1==KernelPCA, shapes and score on the held-out set against the documented loss, training predictions == least-squares image of the fitted targets on the training projections. non-trivial = held-out size != n "
    "and a plumbing pair compared; distinct by data+config hash."
)
ASSUMPTIONS = [
    "eigen-gap guard (relative gaps >= 1e-6 among the top k+1 eigenvalues of the modified kernel, lambda_k/lambda_1 >= 1e-8) for projection comparisons",
    "with kernel='precomputed' the caller cannot supply K_VV, so score is judged on the training kernel only",
    "tolerance 1e-6 relative; sklearn's pairwise_kernels, KernelRidge, KernelPCA, Ridge are trusted",
    "score's held-out loss is the documented formula with K_VV centred in feature space by the training mean when center=True",
]
RULE = RULE + " " + forms.RULE_SUFFIX
KERNELS = ("linear", "rbf", "poly", "sigmoid", "cosine")


def gen(rng, tier, index):
    hi = 18 if tier == "quick" else 36
    n = int(rng.integers(5, hi))
    f = int(rng.integers(2, 7))
    p = int(gens.pick(rng, (1, 1, 2, 3)))
    X = rng.normal(size=(n, f)) * float(10.0 ** rng.uniform(-0.5, 0.5))
    if rng.random() < 0.6:
        X = X - X.mean(axis=0)
    else:
        X = X + rng.normal(size=f)
    Y = np.tanh(X @ rng.normal(size=(f, p))) + 0.1 * rng.normal(size=(n, p))
    Y = Y - Y.mean(axis=0)
    if p == 1 and rng.random() < 0.5:
        Y = Y[:, 0].copy()
    which = index % 4
    nv = {0: 1, 1: int(rng.integers(2, n)), 2: n, 3: int(rng.integers(n + 1, 2 * n + 3))}[which]
    Xv = rng.normal(size=(nv, f)) * float(np.abs(X).std()) + X.mean(axis=0)
    Yv = rng.normal(size=(nv,) + np.shape(Y)[1:])
    kern = gens.pick(rng, KERNELS)
    kp = {"gamma": float(rng.uniform(0.05, 0.5)) / f, "degree": int(rng.integers(2, 4)), "coef0": float(rng.uniform(0.0, 2.0))}
    if kern == "sigmoid":
        kp["gamma"] = 0.01 / f
        kp["coef0"] = 0.0  # psd parameters only
    return {
        "X": X,
        "Y": Y,
        "Xv": Xv,
        "Yv": Yv,
        "kernel": kern,
        "kp": kp,
        "center": bool(rng.random() < 0.5),
        "mixing": float(gens.pick(rng, (0.1, 0.3, 0.5, 0.9, 1.0))),
        "k": int(rng.integers(1, min(n - 1, 5) + 1)),
        "reg": gens.pick(rng, ("none", "krr", "krr", "krr", "krr_fitted", "krr_fitted", "precomputed", "precomputed_noW", "precomputed_rawW")),
        "alpha": float(10.0 ** rng.uniform(-3, 0)),
        "past": bool(rng.random() < 0.3),  # the estimator object was configured and fitted differently before
        "Xd": rng.normal(size=(int(rng.integers(5, hi)), f)),
        "how": [gens.pick(rng, forms.CONFIGURE) for _ in range(4)],
        "via": gens.pick(rng, ("fit", "fit", "fit_transform")),
        "xform": gens.pick(rng, forms.PRESENT),
        "carry": gens.pick(rng, forms.CARRY),
        "clobber": bool(rng.random() < 0.5),
        "reject": bool(rng.random() < 0.5),
        "npscalars": bool(rng.random() < 0.3),
    }


def _kern(case, A, B=None):
    from sklearn.metrics.pairwise import pairwise_kernels

    return pairwise_kernels(A, B, metric=case["kernel"], filter_params=True, **case["kp"])


def _centre_test_test(Kvv, Kvn, Knn):
    """(phi_v - mu)(phi_v' - mu)^T with mu the training mean in feature space."""
    r = Kvn.mean(axis=1)
    return Kvv - r[:, None] - r[None, :] + Knn.mean()


def _make(case, kernel, center, reg, mixing=None, k=None):
    from skmatter.decomposition import KernelPCovR

    kw = dict(case["kp"]) if kernel != "precomputed" else {}
    params = dict(mixing=case["mixing"] if mixing is None else mixing, n_components=case["k"] if k is None else k, kernel=kernel, center=center, regressor=reg, svd_solver="full", **kw)
    if case.get("npscalars"):
        params = forms.numpy_scalars(params)  # e.g. center=np.True_, what iterating over a boolean grid hands out
    hows = case.get("how") or ["ctor"]
    case["_made"] = case.get("_made", 0) + 1
    how = hows[case["_made"] % len(hows)]
    if how == "clone" and hasattr(reg, "dual_coef_"):
        how = "ctor"  # clone() would un-fit a pre-fitted regressor: a different configuration, not another route to the same one
    return forms.configure(KernelPCovR, params, how)


def run(case, j):
    from sklearn.decomposition import KernelPCA
    from sklearn.kernel_ridge import KernelRidge
    from sklearn.linear_model import Ridge

    from skmatter.decomposition import PCovR
    from skmatter.preprocessing import KernelNormalizer

    X, Y, Xv, Yv = case["X"], case["Y"], case["Xv"], case["Yv"]
    n, nv = len(X), len(Xv)
    kern, kp, center, a, k, regk, alpha = case["kernel"], case["kp"], case["center"], case["mixing"], case["k"], case["reg"], case["alpha"]
    sizeclass = "1" if nv == 1 else ("lt_n" if nv < n else ("eq_n" if nv == n else "gt_n"))
    j.tag(f"kernel:{kern}", f"center:{center}", f"reg:{regk}", f"heldout:{sizeclass}", "y1d" if np.ndim(Y) == 1 else "y2d")
    Y2 = pc.col2(Y, n)

    K, Kv, Kvv = _kern(case, X), _kern(case, Xv, X), _kern(case, Xv)
    if center:
        s0 = np.trace(K - K.mean(0)[None, :] - K.mean(1)[:, None] + K.mean()) / n
        if s0 <= 1e-10 * max(np.trace(K) / n, 1e-300):
            raise Skip("kernel-degenerate-after-centring")
        kn = KernelNormalizer().fit(K)
        Kc, Kvc = kn.transform(K), kn.transform(Kv)
        Kvvc = _centre_test_test(Kvv, Kv, K) / kn.scale_
    else:
        Kc, Kvc, Kvvc = K, Kv, Kvv

    # ---- regressors for the named fit and for its precomputed twin
    if regk == "none":
        reg_a, reg_b = None, None
        W = np.linalg.solve(Kc + 1.0 * np.eye(n), Y2)  # KernelRidge default alpha=1
    elif regk == "krr":
        reg_a = KernelRidge(kernel=kern, alpha=alpha, **kp)
        reg_b = KernelRidge(kernel="precomputed", alpha=alpha)
        W = np.linalg.solve(Kc + alpha * np.eye(n), Y2)
    elif regk == "krr_fitted":
        reg_a = KernelRidge(kernel=kern, alpha=alpha, **kp).fit(X, Y)
        reg_b = KernelRidge(kernel="precomputed", alpha=alpha).fit(K, Y)
        W = np.linalg.solve(K + alpha * np.eye(n), Y2)
    else:
        W = np.linalg.solve(Kc + alpha * np.eye(n), Y2)
        reg_a = reg_b = "precomputed"
    Yhat = Kc @ W
    if regk == "precomputed_noW":
        # regressor="precomputed" with the weights left out (the library then takes lstsq(K, y, tol)) and the targets
        # themselves handed over as y: legal, and K W is then only the part of y inside the range of K
        wK = pc.spectrum(Kc)
        if np.all((wK > 1e-6 * wK[0]) | (np.abs(wK) < 1e-14 * wK[0])):  # the cut of that lstsq is unambiguous
            Yhat, W = Y2.copy(), None
            j.note("precomputed_regressions_without_weights")
        else:
            regk = "precomputed"
    elif regk == "precomputed_rawW":
        # the caller's own kernel ridge on the raw kernel: with center=True the library's kernel is another one
        W = np.linalg.solve(K + alpha * np.eye(n), Y2)
        Yhat = K @ W
        j.note("precomputed_regressions_from_the_raw_kernel")
    Kt = a * Kc + (1 - a) * (Yhat @ Yhat.T)
    w = pc.spectrum(Kt)
    gap_ok = pc.gap_guard(w, k)
    sT = float(np.sqrt(max(w[0], 1e-300)))
    sY = max(float(np.abs(Y2).max()), 1e-300)
    tol = 1e-6

    fit_Y = Y
    fit_kw = {}
    if regk.startswith("precomputed"):
        fit_Y = Yhat[:, 0] if np.ndim(Y) == 1 else Yhat
        fit_kw = {"W": W} if W is not None else {}

    est_a = _make(case, kern, center, reg_a)
    if case.get("past") and regk in ("none", "krr"):
        # earlier history of the same object: the opposite centring, another mixing, other data
        est_a.set_params(center=not center, mixing=0.5 if a != 0.5 else 0.8)
        Xd = case["Xd"]
        Yd = np.tanh(Xd[:, :1]) if np.ndim(Y) == 2 else np.tanh(Xd[:, 0])
        if np.ndim(Y) == 2 and Y.shape[1] > 1:
            Yd = np.tanh(Xd[:, : Y.shape[1]]) if Xd.shape[1] >= Y.shape[1] else np.repeat(Yd, Y.shape[1], axis=1)
        j.lib("fit:earlier-history", est_a.fit, Xd, Yd)
        est_a.transform(Xd[:2])
        est_a.set_params(center=center, mixing=a)
        j.note("estimators_with_a_past")
    Xin = forms.present(X, case.get("xform", "C"))
    if case.get("how") and any(h != "ctor" for h in case["how"]):
        j.note("configured_not_by_constructor")
    if case.get("xform", "C") != "C":
        j.note("non_default_containers")
    if case.get("npscalars"):
        j.note("numpy_scalar_parameters")
    if case.get("via") == "fit_transform":
        Tft = np.asarray(j.lib("fit_transform:named", est_a.fit_transform, Xin, fit_Y, **fit_kw))
        Ttr = np.asarray(est_a.transform(X))
        j.close("fit_transform(X, y) == transform(X) of the estimator it fitted", Tft, Ttr, 1e-9 * max(float(np.abs(Ttr).max()), 1e-300), {"center": center})
        j.note("fits_through_fit_transform")
    else:
        j.lib("fit:named", est_a.fit, Xin, fit_Y, **fit_kw)
    if case.get("clobber"):
        forms.clobber(Xin if isinstance(Xin, np.ndarray) else None, j=j)  # the caller re-uses its training buffer
    est_a = forms.carry(est_a, case.get("carry", "same"), j)  # what is used afterwards may be a copy of what was fitted

    # ---- (v) any number of new samples: shapes
    T_v = np.asarray(j.lib("transform:heldout", est_a.transform, Xv))
    P_v = np.asarray(j.lib("predict:heldout", est_a.predict, Xv))
    j.ok("transform(held-out) has shape (n_new, k)", T_v.shape == (nv, k), (T_v.shape, nv, k))
    j.ok("predict(held-out) has the target shape", P_v.shape == np.shape(Yv), (P_v.shape, np.shape(Yv)))
    j.note(f"heldout_size_{sizeclass}")

    # ---- (ii)+(iii) named kernel with automatic centring == precomputed, manually centred kernels
    if gap_ok:
        est_b = _make(case, "precomputed", False, reg_b)
        j.lib("fit:precomputed", est_b.fit, Kc, fit_Y, **fit_kw)
        Tb = np.asarray(j.lib("transform:precomputed", est_b.transform, Kvc))
        sgb = np.sign((est_a.transform(X) * est_b.transform(Kc)).sum(axis=0) + 1e-300)
        j.close("named kernel (+center) == precomputed, explicitly normalised kernel: projections", T_v, Tb * sgb, tol * sT * 10)
        j.close("named kernel (+center) == precomputed kernel: predictions", P_v, np.asarray(est_b.predict(Kvc)).reshape(P_v.shape), tol * sY * 10)
        Ta_tr = np.asarray(est_a.transform(X))
        j.close("named kernel (+center) == precomputed kernel: training projections", Ta_tr, np.asarray(est_b.transform(Kc)) * sgb, tol * sT * 10)
        j.note("plumbing_pairs")
        if center:
            est_c = _make(case, "precomputed", True, reg_b if regk != "krr_fitted" else KernelRidge(kernel="precomputed", alpha=alpha).fit(K, Y))
            j.lib("fit:precomputed+center", est_c.fit, K, fit_Y, **fit_kw)
            Tc = np.asarray(est_c.transform(Kv))
            sg = np.sign((est_a.transform(X) * est_c.transform(K)).sum(axis=0) + 1e-300)
            j.close("center=True == KernelNormalizer applied by hand (train and test kernels)", T_v, Tc * sg, tol * sT * 10)
            j.close("center=True == manual normalisation: predictions", P_v, np.asarray(est_c.predict(Kv)).reshape(P_v.shape), tol * sY * 10)
            # the training kernel the caller passed to fit must still give the training projections
            j.close("center=True (precomputed): transform / predict of the training kernel after fit", np.asarray(est_c.transform(K)) * sg, Ta_tr, tol * sT * 10)
            j.close("center=True (precomputed): in-sample predictions", np.asarray(est_c.predict(K)), np.asarray(est_a.predict(X)), tol * sY * 10)
            j.note("centre_pairs")
    else:
        j.skip("eigen-gap-guard")

    # ---- (i) linear kernel == sample-space PCovR with the equivalent ridge
    if kern == "linear" and not center and regk in ("krr", "krr_fitted") and gap_ok:
        pco = PCovR(mixing=a, n_components=k, space="sample", regressor=Ridge(alpha=alpha, fit_intercept=False, tol=1e-12), svd_solver="full")
        j.lib("fit:pcovr", pco.fit, X, Y)
        Tp_tr, Ta_tr = pco.transform(X) + 0.0, est_a.transform(X)
        sg = np.sign((Ta_tr * (X @ pco.pxt_)).sum(axis=0) + 1e-300)
        j.close("linear kernel == sample-space PCovR: held-out projections", T_v, (Xv @ pco.pxt_) * sg, tol * sT * 10)
        j.close("linear kernel == sample-space PCovR: held-out predictions", P_v, np.asarray(Xv @ pco.pxy_).reshape(P_v.shape), tol * sY * 10)
        j.note("pcovr_equivalences")

    # ---- (iv) mixing = 1 on a centred kernel == kernel PCA
    if center:
        wk = pc.spectrum(Kc)
        if wk[-1] < -1e-9 * wk[0]:
            j.skip("kpca-limit:kernel-not-psd")
        elif pc.gap_guard(wk, k, rel_gap=1e-5):
            est_k = _make(case, kern, True, None if regk in ("none",) else (KernelRidge(kernel=kern, alpha=alpha, **kp)), mixing=1.0)
            j.lib("fit:mixing1", est_k.fit, X, Y)
            kpca = KernelPCA(n_components=k, kernel=kern, **kp).fit(X)
            Ta, Tb = est_k.transform(Xv), kpca.transform(Xv)
            sc = np.sqrt(est_k.centerer_.scale_)
            sg = np.sign((est_k.transform(X) * kpca.transform(X)).sum(axis=0) + 1e-300)
            j.close("mixing=1, centred: projections == KernelPCA up to sign and sqrt(scale_)", Ta * sc, Tb * sg, 1e-6 * max(float(np.abs(kpca.transform(X)).max()), 1e-300) * 10)
            j.note("kpca_limits")
        else:
            j.skip("kpca-limit:eigen-gap")

    # ---- (v) score on the held-out set == documented loss
    def loss(Knn, Kvn, Kvv_, Tn, Tv, Yq, Pq):
        G = np.linalg.pinv(Tn.T @ Tn, rcond=1e-12)
        wq = Tn @ G @ Tv.T
        l_kpca = np.trace(Kvv_ - 2 * Kvn @ wq + wq.T @ Knn @ wq) / np.trace(Kvv_)
        l_krr = np.linalg.norm(np.asarray(Yq) - np.asarray(Pq).reshape(np.shape(Yq))) ** 2 / np.linalg.norm(Yq) ** 2
        return -(l_kpca + l_krr)

    T_n = np.asarray(est_a.transform(X))
    # the documented weights from the latent space to the targets are the least-squares ones (pseudo-inverse of the
    # training projections applied to the y handed to fit): predictions of the training set are that image
    svT = np.linalg.svd(T_n, compute_uv=False)
    if svT[-1] > 1e-5 * svT[0]:
        Yf2 = np.asarray(fit_Y, dtype=float).reshape(n, -1)
        img = T_n @ np.linalg.lstsq(T_n, Yf2, rcond=None)[0]
        j.close("predict(training set) == least-squares image of the fitted targets on the training projections", np.asarray(est_a.predict(X)).reshape(n, -1), img, 1e-9 * (svT[0] / svT[-1]) ** 2 * max(float(np.abs(Yf2).max()), 1e-300), {"reg": regk, "center": center, "kernel": kern})
        j.note("least_squares_images_judged")
    want_tr = loss(Kc, Kc, Kc, T_n, T_n, fit_Y, est_a.predict(X))
    if case.get("reject") and kern != "precomputed":
        # a failure in the history: queries with the wrong number of features are refused; the later legal ones stand
        Xbad = np.hstack([Xv, Xv[:, :1]])
        forms.rejected(j, "score of samples with another number of features", est_a.score, Xbad, Yv)
        forms.rejected(j, "transform of samples with another number of features", est_a.transform, Xbad)
    got_tr = j.lib("score:train", est_a.score, X, fit_Y)
    j.close("score(training set) == -(kernel reconstruction loss + relative regression loss)", got_tr, want_tr, 1e-8 * max(1.0, abs(want_tr)))
    if np.trace(Kvvc) > 1e-10 * max(np.trace(Kc) / n, 1e-300):
        want = loss(Kc, Kvc, Kvvc, T_n, T_v, Yv, P_v)
        got = j.lib("score:heldout", est_a.score, Xv, Yv)
        j.close(f"score(held-out, size {sizeclass}) == documented loss", got, want, 1e-8 * max(1.0, abs(want)), {"center": center, "n": n, "nv": nv})
        j.note("heldout_scores_judged")
    else:
        j.skip("heldout-kernel-trace-vanishes")

    j.nontrivial = nv != n and gap_ok
    j.sample = {
        "n": n,
        "heldout": nv,
        "kernel": kern,
        "params": brief(kp),
        "center": center,
        "mixing": a,
        "k": k,
        "regressor": regk,
        "score_train": float(got_tr),
        "top_eigenvalues": [float(v) for v in w[: k + 1]],
    }
