"""C19 - DirectionalConvexHull selects exactly the lower-hull vertices, signed distances.

Monitor: selected_idx_, score_samples, score_feature_matrix of fitted hulls on the
training set, on queries inside the footprint, and on paired fits (affine change of the
target, added points above the hull).
Oracle: one linear program per sample (lower-hull membership and hull height), written
with scipy.optimize.linprog, independent of Qhull.
"""

from __future__ import annotations

import numpy as np
from scipy.optimize import linprog

from .. import forms, gens
from ..common import Skip, brief

ID = "C19"
CASES = {"quick": 640, "thorough": 8000}
FLOOR = {"quick": 520, "thorough": 6500}
FLOOR_COUNTERS = {
    "quick": {"hulls_over_more_than_65536_samples": 2, "membership_lps": 7500, "height_lps": 12000, "queries_judged": 9000, "relation_fits": 1000, "hulls_with_unselected": 400, "estimators_with_a_past": 500, "non_float64_features": 150, "non_default_tolerance": 120, "configured_by_attribute_assignment": 500, "calls_with_more_than_400000_queries": 6, "caller_buffers_overwritten_after_fit": 200, "rejected_calls_in_the_history": 300, "index_arrays_counting_from_the_end_shared_across_tables": 40},
    "thorough": {"hulls_over_more_than_65536_samples": 20, "membership_lps": 115000, "height_lps": 180000, "queries_judged": 140000, "relation_fits": 14000, "hulls_with_unselected": 5000, "estimators_with_a_past": 7000, "non_float64_features": 2000, "non_default_tolerance": 1600, "configured_by_attribute_assignment": 7000, "calls_with_more_than_400000_queries": 80, "caller_buffers_overwritten_after_fit": 3000, "rejected_calls_in_the_history": 4000, "index_arrays_counting_from_the_end_shared_across_tables": 500},
}
RULE = (
    "case = samples with 1-3 hull dimensions and 0-3 extra high-dimensional columns placed in any column order (low_dim_idx in "
    "any order; float64 / int64 / float32 features), convex / concave / noisy targets in units 2^-10..2^14, tolerance default | 1e-9 | 1e-6 | "
    "1e-3 (with large target units), 40% hull objects with a past (fit, score_samples, score_feature_matrix on other data); per training sample one LP decides lower-hull membership and one the hull "
    "height; queries = random convex combinations of sample positions at offsets +0.7 / 0 / -0.7 from the hull; relations: "
    "positive affine map of y, added samples strictly above the hull. non-trivial = at least one unselected sample and >= 2 "
    "hull dimensions or extra columns; distinct by data hash."
)
ASSUMPTIONS = [
    "general position: samples whose LP margin is within 1e-7 of zero make the selection comparison skip (not judged)",
    "HiGHS (scipy linprog) is trusted; tolerance 1e-7 x max(1, |y|)",
    "queries are strictly inside the footprint (convex combinations with all weights > 0)",
    "float32 features: the residuals of score_feature_matrix are single-precision quantities (tolerance 100 eps_32); distances stay double because the target is",
]
RULE = RULE + " " + forms.RULE_SUFFIX
RULE = RULE + " " + "Queries come in their own container (C / Fortran / strided / read-only / list / negative strides / big-endian); one case in 320 is a hull over 66000-72000 samples in 2-3 hull dimensions judged by 'no training sample below the hull', zero distance of the selected samples and 300 directional extremes."


def gen(rng, tier, index):
    if index % 320 == 9:
        # more than 2^16 training samples (sizes that only occur at scale): generated in run() from the seed
        return {"huge": True, "seed": int(rng.integers(1 << 30)), "d": int(gens.pick(rng, (2, 3, 2))), "kind": gens.pick(rng, ("convex_noisy", "noise"))}
    d = int(rng.integers(1, 4))
    h = int(rng.integers(0, 4))
    hi = 26 if tier == "quick" else 45
    n = int(rng.integers(d + 3, hi))
    P = rng.normal(size=(n, d))
    H = rng.normal(size=(n, h))
    kind = gens.pick(rng, ("convex", "noise", "concave", "convex_noisy"))
    r2 = (P**2).sum(axis=1)
    y = {"convex": r2 + 0.05 * rng.normal(size=n), "noise": rng.normal(size=n), "concave": -r2 + 0.3 * rng.normal(size=n), "convex_noisy": r2 + 0.8 * rng.normal(size=n)}[kind]
    cols = rng.permutation(d + h)
    low = [int(c) for c in cols[:d]]  # any choice and order
    X = np.zeros((n, d + h))
    X[:, low] = P
    hi_cols = [c for c in range(d + h) if c not in low]
    X[:, hi_cols] = H
    tolerance, yunit = 1e-12, 1.0
    if rng.random() < 0.3:  # non-default tolerance, targets in large units (energies ~1e3 over descriptors ~1)
        tolerance = float(gens.pick(rng, (1e-9, 1e-6, 1e-3)))
        yunit = float(2.0 ** int(rng.integers(0, 15)))
    elif rng.random() < 0.3:
        yunit = float(2.0 ** int(rng.integers(-10, 15)))
    y = y * yunit
    xdtype = gens.pick(rng, ("float64", "float64", "float64", "int64", "float32"))
    if xdtype == "int64":  # whole-number features (compositions, counts)
        X = np.round(X * 64).astype("int64")
    elif xdtype == "float32":
        X = X.astype("float32")
    return {
        "X": X,
        "y": y,
        "tolerance": tolerance,
        "yunit": yunit,
        "xdtype": xdtype,
        "past": bool(rng.random() < 0.4),
        "clobber": bool(rng.random() < 0.5),
        "reject": bool(rng.random() < 0.4),
        "low_as_array": bool(rng.random() < 0.3),
        "many_queries": bool(index % 64 == 9),
        "how": gens.pick(rng, ("ctor", "ctor", "setattr", "setattr_after_decoy")),
        "low": low,
        "kind": kind,
        "a": float(rng.uniform(0.1, 5.0)),
        "b": float(rng.normal() * 3),
        "lam": rng.dirichlet(np.ones(n), size=8),
        "n_above": int(rng.integers(1, 6)),
        "aseed": int(rng.integers(1 << 30)),
    }


def _height(P, y, q):
    A = np.vstack([P.T, np.ones(len(y))])
    r = linprog(y, A_eq=A, b_eq=np.append(q, 1.0), bounds=(0, None), method="highs")
    return float(r.fun) if r.status == 0 else None


def _is_vertex(P, y, i):
    oth = np.array([k for k in range(len(y)) if k != i])
    A = np.vstack([P[oth].T, np.ones(len(oth))])
    r = linprog(y[oth], A_eq=A, b_eq=np.append(P[i], 1.0), bounds=(0, None), method="highs")
    if r.status == 2:
        return True, np.inf
    if r.status != 0:
        return None, 0.0
    return bool(r.fun > y[i]), float(r.fun - y[i])


def _run_huge(case, j):
    """A hull over more than 65536 samples: no LP per sample; judged by what holds for every lower hull - no training
    sample lies below it, selected samples lie on it, and the sample that minimises y + c.x (a linear functional with
    positive weight on the target) is a vertex, for every direction c in which that minimiser is unique."""
    from skmatter.sample_selection import DirectionalConvexHull as DCH

    rg = np.random.default_rng(case["seed"])
    n, d = int(rg.integers(66000, 72000)), case["d"]
    P = rg.normal(size=(n, d)) * rg.uniform(0.5, 2.0, size=d)
    y = (0.3 * (P**2).sum(axis=1) if case["kind"] == "convex_noisy" else 0.0) + rg.normal(size=n)
    low = [int(c) for c in rg.permutation(d + 1)[:d]]
    X = rg.normal(size=(n, d + 1))
    X[:, low] = P
    j.tag(f"hull_dim:{d}", "samples:more_than_65536", f"target:{case['kind']}")
    m = DCH(low_dim_idx=list(low))
    j.lib("fit", m.fit, X, y)
    sel = np.array(sorted(int(v) for v in m.selected_idx_))
    ys = max(1.0, float(np.abs(y).max()))
    ds = np.asarray(j.lib("score_samples", m.score_samples, X, y))
    j.ok("no training sample lies below the hull", float(ds.min()) >= -1e-7 * ys, {"min": float(ds.min()), "at": int(ds.argmin())})
    j.ok("selected samples have zero distance", float(np.abs(ds[sel]).max()) <= 1e-7 * ys, float(np.abs(ds[sel]).max()))
    selset = set(sel.tolist())
    for t in range(300):
        c = rg.normal(size=d) * float(10.0 ** rg.uniform(-1.5, 2.5))
        f = y + P @ c
        i0, i1 = np.argpartition(f, 1)[:2]
        if abs(f[i1] - f[i0]) <= 1e-9 * max(1.0, float(np.abs(f).max())):
            continue
        i0 = int(i0 if f[i0] <= f[i1] else i1)
        j.ok("the unique minimiser of y + c.x over the training set is a selected vertex", i0 in selset, {"c": c.tolist(), "sample": i0})
        j.note("directional_extremes_judged")
    j.note("hulls_over_more_than_65536_samples")
    j.nontrivial = True
    j.sample = {"n": n, "hull_dims": d, "selected": int(len(sel))}


def run(case, j):
    if case.get("huge"):
        return _run_huge(case, j)
    from skmatter.sample_selection import DirectionalConvexHull as DCH

    Xin, y, low = case["X"], case["y"], case["low"]
    X = np.asarray(Xin, dtype=float)  # the oracle works with the values the caller passed, in double precision
    n = len(y)
    d, h = len(low), X.shape[1] - len(low)
    P = X[:, low]
    T = case.get("tolerance", 1e-12)
    xdt = case.get("xdtype", "float64")
    j.tag(f"hull_dim:{d}", f"extra_cols:{h}", f"target:{case['kind']}", f"X:{xdt}", "tolerance:default" if T == 1e-12 else "tolerance:other")
    if xdt != "float64":
        j.note("non_float64_features")
    if T != 1e-12:
        j.note("non_default_tolerance")
    prng = np.random.default_rng(case["aseed"] + 1)

    def hull(label=""):
        """A fresh hull object, or one with a past: fitted to other data (same columns), asked for distances and
        residuals, then fitted to the data of the case."""
        how = case.get("how", "ctor")
        if case.get("low_as_array") and how == "ctor" and not label:
            # the hull columns as ONE index array that counts from the end, first used by another hull on a wider table
            ncol = X.shape[1]
            shared = np.array([c - ncol for c in low])
            wide = prng.normal(size=(d + 6, ncol + 2))
            j.lib("fit:other hull, wider table, same index array", DCH(low_dim_idx=shared, tolerance=T).fit, wide, prng.normal(size=d + 6))
            mm = DCH(low_dim_idx=shared, tolerance=T)
            j.note("index_arrays_counting_from_the_end_shared_across_tables")
        elif how == "ctor":
            mm = DCH(low_dim_idx=list(low), tolerance=T)
        else:
            # the class has no set_params: an existing object is re-configured by assigning its public attributes
            other = [c for c in range(X.shape[1]) if c not in low][: len(low)] or [low[-1]]
            mm = DCH(low_dim_idx=other, tolerance=1e-9) if how == "setattr_after_decoy" else DCH()
            mm.low_dim_idx = list(low)
            mm.tolerance = T
            j.note("configured_by_attribute_assignment")
        if case.get("past"):
            n0 = int(prng.integers(d + 3, 30))
            X0 = prng.normal(size=(n0, X.shape[1])) * 2 + 1
            y0 = prng.normal(size=n0) * 3 * case.get("yunit", 1.0)
            j.lib("fit:decoy" + label, mm.fit, X0, y0)
            j.lib("score_samples:decoy" + label, mm.score_samples, X0, y0)
            if h:
                j.lib("score_feature_matrix:decoy" + label, mm.score_feature_matrix, X0)
            j.note("estimators_with_a_past")
        return mm

    m = hull()
    Xfit = np.array(Xin, copy=True) if case.get("clobber") else Xin
    yfit = np.array(y, copy=True) if case.get("clobber") else y
    j.lib("fit", m.fit, Xfit, yfit)
    if case.get("clobber"):
        forms.clobber(Xfit, yfit, j=j)  # the caller re-uses its training buffers; the hull keeps what it needs
    if case.get("reject"):
        # a failure in the history: refits that Qhull refuses (too few samples, a flat target) leave the fitted hull as it was
        forms.rejected(j, "refit on too few samples", m.fit, np.asarray(Xin)[: d + 1] * 1.0, np.asarray(y)[: d + 1] + 5.0 * max(1.0, float(np.abs(y).max())))
        forms.rejected(j, "refit on a constant target", m.fit, np.asarray(Xin) * 1.0, np.full(n, 3.0 * max(1.0, float(np.abs(y).max()))))
    sel = set(int(v) for v in m.selected_idx_)
    ys = max(1.0, float(np.abs(y).max()))
    tol = 1e-7 * ys
    # ---- membership: one LP per sample
    exp, margins = set(), []
    for i in range(n):
        v, mg = _is_vertex(P, y, i)
        if v is None:
            raise Skip("lp-failed")
        margins.append(mg)
        if v:
            exp.add(i)
        j.note("membership_lps")
    general = min(abs(np.array(margins))) > 1e-7 * ys
    if general:
        j.ok("selected exactly the samples strictly below every convex combination of the others", sel == exp, {"selected_not_vertex": sorted(sel - exp), "vertex_not_selected": sorted(exp - sel)})
    else:
        j.skip("not-in-general-position")
    # ---- distances on the training set
    # the queries come in a container of their own (Fortran order, strided, read-only, a list, ...): the same numbers
    qform = forms.PRESENT[case["aseed"] % len(forms.PRESENT)]
    Xq_in = forms.present(Xin, qform)
    if qform != "C":
        j.note("queries_in_non_default_containers")
        if qform == "F" and d > 1 and list(low) != sorted(low):
            j.note("fortran_ordered_queries_with_hull_columns_in_non_ascending_order")
    ds = np.asarray(j.lib("score_samples", m.score_samples, Xq_in, y))
    j.ok("one distance per sample", ds.shape == (n,), ds.shape)
    j.ok("no training sample lies below the hull", float(ds.min()) >= -tol, float(ds.min()))
    j.ok("selected samples have zero distance", float(np.abs(ds[sorted(sel)]).max()) <= tol, float(np.abs(ds[sorted(sel)]).max()))
    un = [i for i in range(n) if i not in sel]
    if un:
        j.note("hulls_with_unselected")
        if general:
            j.ok("unselected samples have positive distance", float(ds[un].min()) > 0, float(ds[un].min()))
    for i in range(n):
        hh = _height(P, y, P[i])
        j.note("height_lps")
        if hh is None:
            continue
        if not j.close("distance == vertical offset from the hull", ds[i], y[i] - hh, tol, {"sample": i}):
            break
    neg_idx = bool(case.get("low_as_array") and case.get("how", "ctor") == "ctor")
    if h > 0 and not neg_idx:  # (hull columns counted from the end also stay among the "high-dimensional" ones: DESIGN 11.5)
        r = np.asarray(j.lib("score_feature_matrix", m.score_feature_matrix, forms.present(Xin, qform)))
        j.ok("residual matrix has one column per extra feature", r.shape == (n, h), r.shape)
        j.ok("selected samples have zero high-dimensional residual", float(np.nanmax(np.abs(r[sorted(sel)]))) <= (1e-9 if xdt != "float32" else 100 * float(np.finfo(np.float32).eps)) * max(1.0, float(np.abs(X).max())), float(np.nanmax(np.abs(r[sorted(sel)]))))
    # ---- queries inside the footprint
    for lam in case["lam"]:
        q = lam @ P
        hh = _height(P, y, q)
        j.note("height_lps")
        if hh is None:
            continue
        Xq = np.zeros((1, X.shape[1]))
        Xq[0, low] = q
        for off in (0.7 * ys, 0.0, -0.7 * ys):
            v = float(np.asarray(m.score_samples(np.vstack([Xq, Xq]), np.array([hh + off, hh + off])))[0])
            if off > 0:
                j.close("query above the surface: distance == vertical offset", v, off, tol)
            elif off < 0:
                j.ok("query below the surface: negative distance", v < 0, v)
            else:
                j.close("query on the surface: zero distance", v, 0.0, tol)
            j.note("queries_judged")
    # ---- one call with more queries than an implementation would evaluate in one batch (2^17 ... 2^19 rows); the rows
    #      are copies of queries whose hull height is known, at offsets above / on / below the surface, in an order that
    #      puts below-surface rows late
    if case.get("many_queries"):
        base = []
        for lam in case["lam"][:4]:
            q = lam @ P
            hh = _height(P, y, q)
            if hh is not None:
                base.append((q, hh))
        if base:
            reps = 420000 // (3 * len(base)) + 1
            rows, yv, offs = [], [], []
            for off in (0.7 * ys, 0.0, -0.7 * ys):
                for q, hh in base:
                    xr = np.zeros(X.shape[1])
                    xr[low] = q
                    rows.append(xr)
                    yv.append(hh + off)
                    offs.append(off)
            Xq = np.tile(np.array(rows), (reps, 1))
            yq = np.tile(np.array(yv), reps)
            oq = np.tile(np.array(offs), reps)
            order = np.argsort(-oq, kind="stable")  # above first, below last
            Xq, yq, oq = Xq[order], yq[order], oq[order]
            vq = np.asarray(j.lib("score_samples (one large call)", m.score_samples, Xq, yq))
            up, on, dn = oq > 0, oq == 0, oq < 0
            j.close(f"{len(yq)} queries in one call: distance above the surface == vertical offset", vq[up], oq[up], tol)
            j.close("... on the surface: zero", vq[on], 0.0 * oq[on], tol)
            j.ok("... below the surface: negative", bool(np.all(vq[dn] < 0)), float(vq[dn].max()))
            j.note("calls_with_more_than_400000_queries")
    # ---- relations
    a, b = case["a"], case["b"]
    b = b * ys
    m2 = hull("2").fit(Xin, a * y + b)
    sel2 = set(int(v) for v in m2.selected_idx_)
    if general:
        j.ok("selection unchanged by a positive affine change of the target", sel2 == sel, sorted(sel ^ sel2))
    if sel2 == sel:
        j.close("distances scale with the affine map", m2.score_samples(Xin, a * y + b), a * ds, 1e-7 * a * ys + 1e-9 * abs(b))
    rng = np.random.default_rng(case["aseed"])
    lam = rng.dirichlet(np.ones(n), size=case["n_above"])
    Pa = lam @ P
    ya = np.array([_height(P, y, q) for q in Pa], dtype=float) + rng.uniform(0.2, 2.0, size=len(Pa)) * ys
    Xa = np.zeros((len(Pa), X.shape[1]))
    Xa[:, low] = Pa
    if h:
        Xa[:, [c for c in range(X.shape[1]) if c not in low]] = rng.normal(size=(len(Pa), h))
    m3 = hull("3").fit(np.vstack([X, Xa]), np.concatenate([y, ya]))
    sel3 = set(int(v) for v in m3.selected_idx_)
    if general:
        j.ok("selection unchanged by adding samples strictly above the hull", sel3 == sel, {"added_selected": sorted(v for v in sel3 if v >= n), "diff": sorted(sel ^ sel3)})
    j.note("relation_fits", 2)
    j.nontrivial = bool(un) and (d >= 2 or h > 0)
    j.sample = {"n": n, "hull_dims": d, "extra_cols": h, "low_dim_idx": low, "target": case["kind"], "selected": sorted(sel), "lp_vertices": sorted(exp), "min_abs_margin": float(min(abs(np.array(margins)))), "max_distance": float(ds.max())}
