"""C02 - FPS and PCov-FPS pick a farthest candidate each step and report true distances.

Monitor: GreedyTrace - the score vector seen by every argmax, the index chosen, a copy
of the running table after every commit; final get_select_distance()/get_distance().
Oracle: dense N x N squared-distance matrix built from explicit differences (FPS) or
from an independently assembled PCovR-modified Gram / covariance matrix (PCov-FPS),
consumed in lock-step with tie-aware acceptance.
"""

from __future__ import annotations

import numpy as np

from .. import forms, gens, rt, sel
from ..common import Skip, brief

ID = "C02"
CASES = {"quick": 8000, "thorough": 80000}
FLOOR = {"quick": 6000, "thorough": 60000}
FLOOR_COUNTERS = {"quick": {"tables_with_more_than_2^24_numbers": 2, "random_starts_from_the_seeded_global_generator": 250, "rejected_calls_in_the_history": 2000, "numpy_scalar_parameters": 1500, "integer_typed_targets": 200, "configured_not_by_constructor": 3000, "non_default_containers": 3000, "integer_typed_inputs": 500, "warm_started_fits": 500, "estimators_with_a_past": 600, "small_unit_fits": 400, "picks_judged": 18000, "ties_at_pick": 500}, "thorough": {"tables_with_more_than_2^24_numbers": 15, "random_starts_from_the_seeded_global_generator": 2500, "rejected_calls_in_the_history": 20000, "numpy_scalar_parameters": 15000, "integer_typed_targets": 2500, "configured_not_by_constructor": 30000, "non_default_containers": 30000, "integer_typed_inputs": 5000, "warm_started_fits": 6000, "estimators_with_a_past": 7000, "small_unit_fits": 4000, "picks_judged": 300000, "ties_at_pick": 6000}}
RULE = (
    "case = (FPS | PCov-FPS) x (feature | sample), matrix family (gauss, lattice with exact ties, clustered, duplicated, "
    "scaled, low-rank ...), mixing in {0,.1,.5,.9,.999}, initialisation int/'random'/list/ndarray, n_to_select in [len(init), N]; "
    "every pick and every table after a commit is judged against the brute-force matrix until the candidates are "
    "exhausted. non-trivial = at least 2 judged picks; distinct by hash of spec+data."
)
ASSUMPTIONS = [
    "tolerance 1e-11 x max(|D|, largest squared norm): the code forms d = |a|^2+|b|^2-2ab, so rounding (~1e-15) scales with the norms; feature PCov-FPS: at least 100 eps cond(kept spectrum of X^T X)",
    "feature PCov-FPS: cases whose X^T X has an eigenvalue near the code's absolute 1e-12 cut are skipped (formula not determined to rounding there)",
    "steps after numerical exhaustion of the candidates are not judged here (known finding K2 of C01)",
    "the oracle's Gram/covariance algebra (numpy matmul, eigh) is trusted",
]
RULE = RULE + " " + forms.RULE_SUFFIX
RULE = RULE + " " + 'One case in 4000: plain FPS on 2^21 + a few items of 8 numbers (more than 2^24 numbers), judged by a streaming oracle.'

KINDS = ("gauss", "lattice", "lattice", "near_lattice", "clustered", "dup_rows", "dup_cols", "scaled", "lowrank", "uniform", "collinear")


def gen(rng, tier, index):
    if index % 4000 == 11:
        # a table of more than 2^24 numbers (what a block-wise pass over the data would split): generated in run() from the seed
        return {"huge": True, "dir": ("sample", "feature")[(index // 4000) % 2], "seed": int(rng.integers(1 << 30)), "start": int(rng.integers(1000)), "n_to_select": int(rng.integers(4, 7))}
    direction = ("feature", "sample")[index % 2]
    cls = ("FPS", "PCovFPS")[(index // 2) % 2]
    hi = 14 if tier == "quick" else 30
    n, m = int(rng.integers(2, hi)), int(rng.integers(2, hi))
    kind = gens.pick(rng, KINDS)
    if kind == "near_lattice":  # exact ties broken at the 1e-9 level: near-ties far above rounding
        X = gens.matrix(rng, n, m, "lattice") + 1e-9 * rng.normal(size=(n, m))
    else:
        X = gens.matrix(rng, n, m, kind)
    unit = 1.0
    if rng.random() < 0.3:  # data measured in small or large units (exact power of two: no rounding)
        unit = float(2.0 ** int(rng.integers(-24, 14)))
        X = X * unit
    spec = {"dir": direction, "cls": cls, "kw": {}}
    N = X.shape[sel.axis_of(spec)]
    kw = spec["kw"]
    y = None
    if cls == "PCovFPS":
        kw["mixing"] = float(gens.pick(rng, (0.0, 0.1, 0.5, 0.9, 0.999)))
        y = gens.target(rng, X, gens.pick(rng, ("linear", "noise")), 1)
        if unit != 1.0 and rng.random() < 0.7:
            y = y * (unit if rng.random() < 0.5 else float(2.0 ** int(rng.integers(-24, 14))))
    elif rng.random() < 0.2:
        y = gens.target(rng, X, "noise", 1)
    ninit = 1
    r = rng.random()
    if r < 0.45 or cls == "PCovFPS" and r < 0.75:
        kw["initialize"] = int(rng.integers(N))
    elif r < 0.6 or cls == "PCovFPS":
        kw["initialize"] = "random"
        kw["random_state"] = int(rng.integers(1000))
    else:
        L = int(rng.integers(1, max(2, N // 2 + 1)))
        lst = [int(i) for i in rng.permutation(N)[:L]]
        kw["initialize"] = {"list": lst} if rng.random() < 0.5 else {"array": lst}
        ninit = L
    kw["n_to_select"] = int(rng.integers(ninit, N + 1))
    warm_at = None
    if rng.random() < 0.25 and kw["n_to_select"] - ninit >= 2:
        warm_at = int(rng.integers(ninit, kw["n_to_select"]))  # reach n in two warm-started steps
    decoy = None
    if rng.random() < 0.2:  # the estimator object was fitted before, on other data of the same shape
        decoy = {"X": forms.sibling_or(X, rng.normal(size=X.shape), unit * 3.0), "y": None if y is None else rng.normal(size=len(X))}
    if rng.random() < 0.12 and float(np.abs(X).max()) > 0:  # whole-number data (counts, grid indices) with an integer dtype
        X = np.round(X / float(np.abs(X).max()) * 40.0)
        spec["xint"] = gens.pick(rng, ("int64", "int32"))
    if y is not None and rng.random() < 0.2 and float(np.abs(y).max()) > 0:
        # whole-number targets (labels, counts, grey levels) stored in a narrow integer dtype
        yint = gens.pick(rng, ("int8", "uint8", "int16", "int32", "int64"))
        top = {"int8": 120, "uint8": 250, "int16": 3000, "int32": 200000, "int64": 5000}[yint]
        y = np.round(y / float(np.abs(y).max()) * top)
        if yint == "uint8":
            y = np.abs(y)
        spec["yint"] = yint
    # the same configuration and the same numbers through another public route / container
    spec["how"] = gens.pick(rng, forms.CONFIGURE)
    spec["xform"] = gens.pick(rng, forms.PRESENT)
    spec["yform"] = gens.pick(rng, forms.PRESENT)
    spec["clobber"] = bool(rng.random() < 0.5)
    spec["npscalars"] = bool(rng.random() < 0.3)
    spec["reject"] = bool(rng.random() < 0.5)
    if kw.get("initialize") == "random" and rng.random() < 0.4:
        spec["global_seed"] = int(kw["random_state"])  # the same stream through np.random.seed and random_state=None
        kw["random_state"] = None
    spec["carry"] = gens.pick(rng, forms.CARRY)
    return {"spec": spec, "X": X, "y": y, "kind": kind, "unit": unit, "warm_at": warm_at, "decoy": decoy}


def _run_one(spec, X, y, j, label, warm_at=None, decoy=None):
    est = sel.make(spec)
    if spec.get("reject"):
        forms.rejected(j, "warm start of a never-fitted selector", sel.fit, est, X, y, spec, warm=True)
    if decoy is not None:
        j.lib("fit:earlier-history", sel.fit, est, decoy["X"], decoy["y"], spec)
        j.note("estimators_with_a_past")
    tr = rt.GreedyTrace(est)
    if warm_at is not None:
        n_final = est.n_to_select
        est.n_to_select = warm_at
        j.lib("fit" + label, sel.fit, est, X, y, spec)
        if spec.get("reject") and int(getattr(est, "n_selected_", 0)) >= 2:
            # a failure in the history: a warm start asking for fewer selections than were made is refused, then corrected
            est.n_to_select = int(est.n_selected_) - 1
            forms.rejected(j, "shrinking warm start", sel.fit, est, X, y, spec, warm=True)
        how = spec.get("carry", "same")
        if how != "same":  # the warm start continues on a deep copy / an unpickled copy of the fitted object
            tr.detach()
            est = j.lib("carry", forms.carry, est, how, j)
            tr.attach(est)
        est.n_to_select = n_final
        j.lib("fit:warm" + label, sel.fit, est, X, y, spec, warm=True)
        j.note("warm_started_fits")
    else:
        j.lib("fit" + label, sel.fit, est, X, y, spec)
    return est, tr


def _run_huge(case, j):
    """Plain FPS on 2^21 + a few items of 8 numbers each: judged by a streaming oracle (direct squared differences to the
    picks made so far), which needs no items x items table."""
    from skmatter import feature_selection as fs
    from skmatter import sample_selection as ss

    rg = np.random.default_rng(case["seed"])
    N, w = (1 << 21) + int(rg.integers(3, 40)), 8
    A = rg.normal(size=(N, w)) * np.logspace(0, -0.5, w)  # items are rows
    A[rg.integers(0, N, size=50)] *= 3.0  # some stand out: the leading picks are well separated
    A[-5:] *= 5.0  # ... among them the very last items of the table
    X = A if case["dir"] == "sample" else np.ascontiguousarray(A.T)
    est = (ss if case["dir"] == "sample" else fs).FPS(n_to_select=case["n_to_select"], initialize=case["start"])
    j.tag(f"{case['dir']}:FPS", "data:more_than_2^24_numbers")
    j.lib("fit", est.fit, X)
    idx = [int(i) for i in est.selected_idx_]
    j.ok("first selection is the requested start", idx[0] == case["start"], idx[:1])
    h = ((A - A[idx[0]]) ** 2).sum(axis=1)
    for t in range(1, len(idx)):
        best = float(h.max())
        j.ok("pick is a farthest candidate (streaming oracle over all items)", h[idx[t]] >= best * (1 - 1e-9), {"step": t, "picked": idx[t], "its_distance": float(h[idx[t]]), "largest": best, "argmax": int(h.argmax())})
        h = np.minimum(h, ((A - A[idx[t]]) ** 2).sum(axis=1))
        j.note("picks_judged")
    tab = np.asarray(est.hausdorff_, dtype=float)
    j.close("table after the last commit == true min distance to the selected set (all items)", tab, h, 1e-9 * max(float(h.max()), 1e-300), {"worst_item": int(np.abs(tab - h).argmax())})
    j.note("tables_with_more_than_2^24_numbers")
    j.nontrivial = True
    j.sample = {"items": N, "direction": case["dir"], "selected": idx}


def run(case, j):
    if case.get("huge"):
        return _run_huge(case, j)
    spec, X, y = case["spec"], case["X"], case["y"]
    if spec.get("how", "ctor") != "ctor":
        j.note("configured_not_by_constructor")
    if spec.get("xform", "C") != "C":
        j.note("non_default_containers")
    if spec.get("xint"):
        j.note("integer_typed_inputs")
    if spec.get("npscalars"):
        j.note("numpy_scalar_parameters")
    if spec.get("yint"):
        j.note("integer_typed_targets")
    axis = sel.axis_of(spec)
    N = X.shape[axis]
    kw = spec["kw"]
    j.tag(f"{spec['dir']}:{spec['cls']}", f"data:{case['kind']}", f"mixing:{kw.get('mixing')}", "unit:1" if case.get("unit", 1.0) == 1.0 else ("unit:small" if case["unit"] < 1 else "unit:large"))
    if case.get("unit", 1.0) < 1e-3:
        j.note("small_unit_fits")
    if not sel.pcov_spectrum_guard(spec, X):
        raise Skip("spectrum-near-1e-12-cut")
    est, tr = _run_one(spec, X, y, j, "", warm_at=case.get("warm_at"), decoy=case.get("decoy"))
    D = sel.fps_distance_matrix(spec, X, y)
    A = sel.items(X, axis)
    scale = max(float(np.abs(D).max()), float((A**2).sum(axis=1).max()), 1e-300)
    if spec["cls"] == "PCovFPS":
        # d = |a|^2 + |b|^2 - 2ab in the MODIFIED metric: its rounding scales with those norms (large targets make them large)
        scale = max(scale, float(np.abs(D).max()), float(np.abs(getattr(sel.fps_distance_matrix, "last_norms", np.zeros(1))).max()))
    tol = 1e-11 * scale  # |a|^2 + |b|^2 - 2ab carries ~1e-15 x scale of rounding
    if spec["cls"] == "PCovFPS" and axis == 1:
        # the feature-space metric goes through (X^T X)^(-1/2) restricted to the kept eigenvalues: its rounding error is
        # eps x their condition number (visible as soon as library and oracle multiply the same numbers in different
        # containers and hence in a different order)
        w = np.linalg.eigvalsh(np.asarray(X, float).T @ np.asarray(X, float))
        kept = w[w > 1e-12]
        if len(kept):
            tol = max(tol, 100 * np.finfo(float).eps * float(kept.max() / kept.min()) * scale)
    seq = [e["idx"] for e in tr.commits()]
    picks = tr.picks()
    idx = [int(v) for v in est.selected_idx_]
    j.ok("trace == selected_idx_", idx == seq, (idx, seq))

    # --- initial selections
    init = kw["initialize"]
    if isinstance(init, dict):
        want = list(init.get("list", init.get("array")))
        ninit = len(want)
        j.ok("initial selections are the requested list", seq[:ninit] == want, (seq, want))
    elif init == "random":
        ninit = 1
        want = int(np.random.RandomState(kw["random_state"] if spec.get("global_seed") is None else spec["global_seed"]).randint(N))
        if spec.get("global_seed") is not None:
            j.note("random_starts_from_the_seeded_global_generator")
        j.ok("'random' start is RandomState(seed).randint(N)", seq[0] == want, (seq[0], want))
        est2, tr2 = _run_one(spec, X, y, j, ":repeat")
        j.ok("'random' start reproducible", [int(v) for v in est2.selected_idx_] == idx)
    else:
        ninit = 1
        j.ok("initial selection is the requested index", seq[0] == init, (seq[0], init))

    sd = np.asarray(est.get_select_distance(), dtype=float)
    j.ok("one select-distance per selection", sd.shape == (len(seq),), (sd.shape, len(seq)))
    commits = tr.commits()
    judged_until = len(seq)
    # a selection repeated later (only possible once the candidates are exhausted: known finding
    # K2 of C01) overwrites its own select-distance entry; such entries are not judged
    tainted = {t for t in range(len(seq)) if seq[t] in seq[t + 1 :]}
    prev_sd = None
    ties = 0
    for t in range(len(seq)):
        S = seq[:t]
        p = seq[t]
        md = sel.hausdorff(D, S) if S else np.full(N, np.inf)
        if t >= ninit:
            un = np.setdiff1d(np.arange(N), S)
            best = md[un].max() if len(un) else 0.0
            if best <= 1e-12 * scale:
                judged_until = t
                j.note("exhausted_fits")
                break
            pk = picks[t - ninit] if t - ninit < len(picks) else None
            j.ok(
                "pick is a farthest candidate",
                p not in S and md[p] >= best - tol,
                lambda: {"step": t, "picked": p, "true_min_dist": float(md[p]), "max_over_candidates": float(best), "seq": seq, "tol": tol},
            )
            j.note("picks_judged")
            if int((md[un] >= best - tol).sum()) > 1:
                ties += 1
                j.note("ties_at_pick")
            if pk is not None and pk["scores"] is not None:
                j.close("score vector at the pick == true min distances", pk["scores"], md, tol, {"step": t})
            if t not in tainted:
                if prev_sd is not None:
                    j.ok("select distances never increase", sd[t] <= prev_sd + tol, (t, float(sd[t]), float(prev_sd)))
                prev_sd = sd[t]
        if t in tainted:
            j.note("select_distance_overwritten_by_reselection")
        elif t < len(sd):
            j.close("reported select distance == true minimum", sd[t], md[p], tol, {"step": t})
        tab = commits[t].get("table") if t < len(commits) else None
        if tab is not None:
            j.close("table after commit == true min distance to selected set", tab, sel.hausdorff(D, seq[: t + 1]), tol, {"step": t})
    if judged_until == len(seq):
        j.close("get_distance() == true min distance to the selected set", est.get_distance(), sel.hausdorff(D, seq), tol)

    # --- duality: sample FPS on X == feature FPS on X^T
    if spec["cls"] == "FPS":
        dual = {"dir": "feature" if spec["dir"] == "sample" else "sample", "cls": "FPS", "kw": dict(kw), "global_seed": spec.get("global_seed")}
        est_d, tr_d = _run_one(dual, np.ascontiguousarray(X.T), None, j, ":dual")
        seq_d = [e["idx"] for e in tr_d.commits()]
        for t in range(min(judged_until, len(seq_d))):
            if seq[t] == seq_d[t]:
                continue
            S = seq[:t]
            md = sel.hausdorff(D, S)
            un = np.setdiff1d(np.arange(N), S)
            best = md[un].max()
            j.ok(
                "dual (transposed) FPS diverges only at a tie",
                md[seq[t]] >= best - tol and md[seq_d[t]] >= best - tol,
                {"step": t, "a": seq[t], "b": seq_d[t], "da": float(md[seq[t]]), "db": float(md[seq_d[t]]), "best": float(best)},
            )
            j.note("dual_divergence_at_tie")
            break
        else:
            j.ok("dual (transposed) FPS selects identically", True)
        j.note("dual_fits")

    j.nontrivial = (judged_until - ninit) >= 2
    j.sample = {
        "selector": f"{spec['dir']}.{spec['cls']}",
        "kw": brief(kw),
        "X": f"{X.shape} {case['kind']}",
        "sequence": seq,
        "select_distances": [float(v) for v in sd[:8]],
        "picks_judged": max(0, judged_until - ninit),
        "ties_seen": ties,
        "trace_events": len(tr.events),
    }
