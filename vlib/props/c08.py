"""C08 - greedy selection is history independent (prefix, restart, warm start).

Monitor: public state + hausdorff_/pi_/X_current_ after *every* link of a warm chain;
GreedyTrace of the single cold fit (tables after every commit, score vectors for tie
detection).
Oracle: the cold fit with the final n and its own trace.
"""

from __future__ import annotations

import itertools

import numpy as np

from .. import forms as vforms, gens, rt, sel
from ..common import Skip, brief

ID = "C08"

# 13 selector variants in scope
VARIANTS = (
    [("feature", "FPS", {}), ("sample", "FPS", {}), ("feature", "PCovFPS", {}), ("sample", "PCovFPS", {}), ("sample", "VoronoiFPS", {})]
    + [(d, c, {"recompute_every": r}) for d in ("feature", "sample") for c in ("CUR", "PCovCUR") for r in (0, 1)]
)


def schedules(n):
    """All increasing schedules n1 < ... < nr = n."""
    out = []
    for r in range(0, n):
        for mid in itertools.combinations(range(1, n), r):
            out.append(list(mid) + [n])
    return out


EXH_N = {"quick": 5, "thorough": 7}
EXH_DATA = {"quick": 2, "thorough": 4}


def _exh_table(tier):
    tab = []
    for n in range(2, EXH_N[tier] + 1):
        for sch in schedules(n):
            for v in range(len(VARIANTS)):
                for d in range(EXH_DATA[tier]):
                    tab.append((v, sch, d))
    return tab


_EXH = {t: _exh_table(t) for t in ("quick", "thorough")}
SAMPLED = {"quick": 1400, "thorough": 24000}
CASES = {t: len(_EXH[t]) + SAMPLED[t] for t in ("quick", "thorough")}
FLOOR = {"quick": 1800, "thorough": 25000}
FLOOR_COUNTERS = {
    "quick": {"links_judged": 4000, "exhaustive_schedule_cases": len(_EXH["quick"]), "prefix_init_fits": 150, "threshold_toggles": 300, "estimators_with_a_past": 300, "small_unit_cases": 60, "configured_not_by_constructor": 500, "non_default_containers": 500, "reader_rounds": 2000, "carried_by:deepcopy": 100, "carried_by:pickle": 100, "thresholds_equal_to_a_score": 20, "float32_inputs": 50, "links_that_add_nothing": 100, "voronoi_links_with_calibrated_switching_point": 40},
    "thorough": {"chains_beyond_32767_selections": 2, "links_judged": 60000, "exhaustive_schedule_cases": len(_EXH["thorough"]), "prefix_init_fits": 2500, "threshold_toggles": 5000, "estimators_with_a_past": 5000, "small_unit_cases": 1000, "configured_not_by_constructor": 9000, "non_default_containers": 9000, "reader_rounds": 30000, "carried_by:deepcopy": 1800, "carried_by:pickle": 1800, "thresholds_equal_to_a_score": 350, "float32_inputs": 800, "links_that_add_nothing": 1500, "voronoi_links_with_calibrated_switching_point": 500},
}
RULE = (
    "case = one of 13 selector variants (FPS, PCov-FPS both directions, VoronoiFPS, CUR/PCov-CUR both directions with "
    "recompute_every 0/1) x data with rank above the request x a schedule n1<...<n of warm-started fits. The first block of "
    "case indices enumerates EVERY increasing schedule ending in n for n <= 5 (quick) / n <= 7 (thorough) for every variant "
    "on 2 (4) data sets; the rest samples n <= 14 with n_to_select written as int/float/None and an unreachable threshold "
    "switched on/off between links. After every link the whole state is compared with the cold fit. non-trivial = chain of "
    ">= 2 links; distinct by hash of variant+data+schedule."
)
ASSUMPTIONS = [
    "differences are accepted only from the first step at which the cold trace shows two candidates within tolerance (1e-9 relative for distances, 1e-7 for pi)",
    "CUR family only with recompute_every in {0,1} (per the property); data generic so that the rank exceeds the request",
    "the reference is the implementation's own cold fit (its correctness is C02/C06/C07)",
]
RULE = RULE + " " + vforms.RULE_SUFFIX
RULE = RULE + " " + 'Relative thresholds of a link are 0.9 x the smallest score ratio of the single cold fit (not reached there); VoronoiFPS chains contain a cold refit refused for an illegal switching point; thorough tier: two chains 32700 -> 32800 selections on 33000 points.'
KINDS = ("gauss", "uniform", "scaled1", "clustered1", "lattice_wide")


def _matrix(rng, n, m, kind):
    if kind == "scaled1":
        return rng.normal(size=(n, m)) * 10.0 ** rng.uniform(-1, 1, size=m)
    if kind == "clustered1":
        c = rng.normal(size=(3, m)) * 3
        return c[rng.integers(0, 3, size=n)] + 0.3 * rng.normal(size=(n, m))
    if kind == "lattice_wide":
        return rng.integers(-6, 7, size=(n, m)).astype(float) + 0.0
    return gens.matrix(rng, n, m, kind)


def _form(rng, e, N, allow_none=True):
    r = rng.random()
    if allow_none and e == N // 2 and r < 0.4:
        return None
    if r < 0.6:
        return int(e)
    return 1.0 if e == N else float((e + 0.5) / N)


def _run_long(case, j):
    """A warm chain that passes 32767 selections (more than a 16-bit counter holds): Voronoi FPS on 33000 points,
    fit to 32700, warm start to 32800, against the single cold fit to 32800 and against the definition for the last
    hundred steps (direct squared differences to everything selected before)."""
    from skmatter.sample_selection import VoronoiFPS

    rg = np.random.default_rng(case["seed"])
    X = rg.normal(size=(33000, 2)) * np.array([1.0, 0.6])
    ff = case["ff"]
    j.tag("sample:VoronoiFPS:long", "data:33000_points")
    cold = VoronoiFPS(n_to_select=32800, initialize=case["start"], full_fraction=ff)
    j.lib("fit:cold", cold.fit, X)
    est = VoronoiFPS(n_to_select=32700, initialize=case["start"], full_fraction=ff)
    j.lib("fit:link0", est.fit, X)
    est.n_to_select = 32800
    j.lib("fit:link1", est.fit, X, warm_start=True)
    a, b = np.asarray(est.selected_idx_), np.asarray(cold.selected_idx_)
    j.ok("warm chain reaches the cold sequence (differences only from a tied step)", a.shape == b.shape and bool(np.array_equal(a, b)), lambda: {"first_difference": int(np.argmax(a != b)) if a.shape == b.shape else (a.shape, b.shape)})
    j.ok("indices pairwise distinct", len(set(a.tolist())) == len(a), len(set(a.tolist())))
    # the last hundred steps against the definition
    h = np.full(len(X), np.inf)
    for s0 in range(0, 32700, 4096):
        blk = X[a[s0 : min(s0 + 4096, 32700)]]
        h = np.minimum(h, ((X[:, None, :] - blk[None, :, :]) ** 2).sum(-1).min(axis=1))
    for t in range(32700, 32800):
        j.ok("pick is a farthest candidate (definition, all earlier selections)", h[a[t]] >= float(h.max()) * (1 - 1e-9), {"step": t})
        h = np.minimum(h, ((X - X[a[t]]) ** 2).sum(axis=1))
    # the library forms squared distances from squared norms and inner products: rounding of the size eps x |x|^2,
    # however small the distances that are left after 32800 of 33000 points have been selected
    j.close("distance table after the last link == true min distance to the selected set", np.asarray(est.hausdorff_, dtype=float), h, 1e-9 * float(np.max(h)) + 1e-12 * float((X**2).sum(axis=1).max()))
    j.note("chains_beyond_32767_selections")
    j.nontrivial = True
    j.sample = {"points": 33000, "schedule": [32700, 32800]}


def gen(rng, tier, index):
    if tier == "thorough" and index >= CASES[tier] - 2:  # (about 40 s each: thorough tier only)
        return {"long": True, "seed": int(rng.integers(1 << 30)), "start": int(rng.integers(33000)), "ff": float(gens.pick(rng, (0.5, 1.0, 0.05)))}
    exh = _EXH[tier]
    if index < len(exh):
        v, sch, d = exh[index]
        nfin = sch[-1]
        lo = nfin + 2
        n = int(rng.integers(lo, lo + 5))
        m = n + 3 + int(rng.integers(0, 3))  # clearly non-square: keeps X^T X away from the 1e-12 cut
        if rng.random() < 0.5:
            n, m = m, n
        kind = ("gauss", "uniform", "scaled1", "clustered1")[d % 4]
        forms = "int"
        exhaustive = True
    else:
        v = int(rng.integers(len(VARIANTS)))
        nfin = int(rng.integers(2, 15))
        lo = nfin + 2
        n, m = int(rng.integers(lo, lo + 8)), int(rng.integers(lo, lo + 8))
        k = int(rng.integers(1, min(5, nfin) + 1))
        mid = sorted(int(x) for x in rng.choice(np.arange(1, nfin), size=min(k - 1, nfin - 1), replace=False)) if nfin > 1 else []
        sch = mid + [nfin]
        if rng.random() < 0.15:  # a link that adds nothing: another n_to_select that resolves to the count already reached
            sch = sorted(sch + [sch[int(rng.integers(len(sch)))]])
        kind = gens.pick(rng, KINDS)
        forms = "mixed"
        exhaustive = False
    direction, cls, extra = VARIANTS[v]
    X = _matrix(rng, n, m, kind)
    unit = 1.0
    if not exhaustive and rng.random() < 0.25:
        unit = float(2.0 ** int(rng.integers(-24, 12)))
    spec = {"dir": direction, "cls": cls, "kw": dict(extra)}
    for _ in range(20):  # the enumerated block must not lose cases to the conditioning guard
        if not exhaustive or sel.pcov_spectrum_guard(spec, X):
            break
        X = _matrix(rng, n, m, kind)
    kw = spec["kw"]
    N = X.shape[sel.axis_of(spec)]
    y = gens.target(rng, X, "linear", 1) if (sel.needs_y(spec) or rng.random() < 0.3) else None
    if cls in sel.FPS_FAMILY:
        kw["initialize"] = int(rng.integers(N)) if rng.random() < 0.8 else "random"
        if kw["initialize"] == "random":
            kw["random_state"] = int(rng.integers(100))
    if cls in sel.CUR_FAMILY:
        kw["k"] = int(gens.pick(rng, (1, 1, 2)))
    if cls == "PCovCUR":
        kw["mixing"] = float(gens.pick(rng, (0.2, 0.5, 0.8, 1.0)))
    if cls == "PCovFPS":
        kw["mixing"] = float(gens.pick(rng, (0.0, 0.3, 0.5, 0.9)))
    if cls == "VoronoiFPS":
        kw["full_fraction"] = gens.pick(rng, (0.05, 0.5, 1.0, None))  # None: calibrated from timings inside fit
        if kw["full_fraction"] is None and not exhaustive:
            kw["initialize"], kw["random_state"] = "random", int(rng.integers(100))
    links = []
    for e in sch:
        nts = int(e) if forms == "int" else _form(rng, e, N)
        thr = None
        if forms == "mixed" and rng.random() < 0.35:
            thr = gens.pick(rng, ("absolute", "relative"))
        if forms == "mixed" and kind == "lattice_wide" and cls in ("FPS", "VoronoiFPS") and unit == 1.0:
            thr = "absolute"  # whole-number data: the threshold will sit exactly on a score
        links.append({"n": nts, "resolved": int(e), "threshold": thr})
    past = None
    if not exhaustive and rng.random() < 0.3:  # the chain's estimator was cold-fitted before on other data of the same shape
        past = {"X": vforms.sibling_or(X * unit, rng.normal(size=X.shape), unit), "y": None if y is None else rng.normal(size=len(X)), "n": int(rng.integers(1, min(N, nfin + 3) + 1))}
    carry = [gens.pick(rng, vforms.CARRY) if not exhaustive else "same" for _ in sch]
    readers = bool(rng.random() < 0.5)  # the fitted state is read through the public accessors between two links
    if not exhaustive and unit == 1.0 and cls in ("CUR", "FPS") and rng.random() < 0.25:
        # single-precision input: the numbers are rounded to float32 here so that the oracle sees the same data
        X = X.astype(np.float32).astype(float)
        spec["xfloat32"] = True
        past = None if past is None else dict(past, X=past["X"].astype(np.float32).astype(float))
    if not exhaustive:  # the same configuration and the same numbers through another public route / container
        spec["how"] = gens.pick(rng, vforms.CONFIGURE)
        spec["xform"] = gens.pick(rng, vforms.PRESENT)
        spec["yform"] = gens.pick(rng, vforms.PRESENT)
        spec["clobber"] = bool(rng.random() < 0.5)
        spec["npscalars"] = bool(rng.random() < 0.3)
    return {"spec": spec, "X": X * unit, "y": y, "kind": kind, "links": links, "exhaustive": exhaustive, "unit": unit, "past": past, "carry": carry, "readers": readers, "reject": bool(rng.random() < 0.4) and not exhaustive}


def _state(est, spec):
    st = {
        "idx": [int(v) for v in est.selected_idx_],
        "Xs": np.array(est.X_selected_, copy=True),
        "ys": np.array(est.y_selected_, copy=True) if hasattr(est, "y_selected_") else None,
    }
    if spec["cls"] in sel.FPS_FAMILY:
        st["table"] = np.array(est.get_distance(), copy=True)
        st["sd"] = np.array(est.get_select_distance(), copy=True)
        if hasattr(est, "hausdorff_at_select_"):
            st["at_select"] = np.array(est.hausdorff_at_select_, copy=True)
    else:
        st["table"] = np.array(est.pi_, copy=True)
        st["Xc"] = np.array(est.X_current_, copy=True)
    return st


def _judgeable(spec, X, y, nfin):
    """Pre-flight for the enumerated block: do the preconditions that depend on the sequence the library picks
    (candidates not exhausted, separated top-k subspace at every refresh) hold for these data?"""
    if not sel.pcov_spectrum_guard(spec, X):
        return False
    try:
        cold = sel.make(spec)
        cold.n_to_select = nfin
        tr = rt.GreedyTrace(cold)
        sel.fit(cold, X, y, spec)
        tr.detach()
    except Exception:  # noqa: BLE001  the judged run will report it
        return True
    seq = [e["idx"] for e in tr.commits()]
    if sel.first_repeat(seq) is not None or sel.exhausted(spec, X, y, seq[:-1]):
        return False
    if spec["cls"] not in sel.FPS_FAMILY:
        re = spec["kw"].get("recompute_every")
        for r in ([0] if re == 0 else range(nfin)):
            if not sel.pi_oracle(spec, X, y, seq[:r])[1]:
                return False
    return True


def run(case, j):
    if case.get("long"):
        return _run_long(case, j)
    spec, X, y, links = case["spec"], case["X"], case["y"], case["links"]
    if spec.get("how", "ctor") != "ctor":
        j.note("configured_not_by_constructor")
    if spec.get("xform", "C") != "C":
        j.note("non_default_containers")
    if spec.get("npscalars"):
        j.note("numpy_scalar_parameters")
    axis = sel.axis_of(spec)
    N = X.shape[axis]
    fam_fps = spec["cls"] in sel.FPS_FAMILY
    nfin = links[-1]["resolved"]
    re = spec["kw"].get("recompute_every")
    f32 = bool(spec.get("xfloat32"))
    if f32:
        j.note("float32_inputs")
        j.tag("dtype:float32")
    if case["exhaustive"]:
        # every schedule of the enumerated block is judged: data on which a precondition fails are re-drawn
        rr = np.random.default_rng([nfin, len(links), X.shape[0], X.shape[1]])
        for _ in range(30):
            if _judgeable(spec, X, y, nfin):
                break
            X = _matrix(rr, X.shape[0], X.shape[1], case["kind"])
            y = None if y is None else gens.target(rr, X, "linear", 1)
            j.note("enumerated_block_redraws")
    j.tag(f"{spec['dir']}:{spec['cls']}" + (f":re{re}" if re is not None else ""), f"data:{case['kind']}", f"links:{len(links)}", "exhaustive" if case["exhaustive"] else "sampled")
    sel.require(sel.pcov_spectrum_guard(spec, X), "spectrum-near-1e-12-cut")

    # ---- never-fitted warm start is rejected
    fresh = sel.make(spec)
    fresh.n_to_select = links[0]["n"]
    try:
        sel.fit(fresh, X, y, spec, warm=True)
        j.ok("warm_start on a never-fitted selector is rejected", False, "no exception")
    except ValueError:
        j.ok("warm_start on a never-fitted selector is rejected", True)
    except Exception as e:
        j.ok("warm_start on a never-fitted selector is rejected", False, repr(e)[:200])

    # ---- the cold reference
    cold = sel.make(spec)
    cold.n_to_select = links[-1]["n"]
    if case.get("reject"):
        vforms.rejected(j, "warm start of a never-fitted selector", sel.fit, cold, X, y, spec, warm=True)
    trc = rt.GreedyTrace(cold)
    j.lib("fit:cold", sel.fit, cold, X, y, spec)
    seq = [e["idx"] for e in trc.commits()]
    j.ok("cold fit makes the requested number of selections", len(seq) == nfin, (len(seq), nfin))
    sel.require(sel.first_repeat(seq) is None and not sel.exhausted(spec, X, y, seq[:-1]), "candidates-exhausted")
    if not fam_fps:
        # the leverage scores are only determined (to the 1e-12 of the code's eigensolver) when the top-k
        # subspace is separated at every refresh point the chain or the cold fit goes through
        for r in ([0] if re == 0 else range(nfin)):
            _, gap_ok = sel.pi_oracle(spec, X, y, seq[:r], min_gap=1e-2 if f32 else 1e-6)
            if not gap_ok:
                raise Skip("degenerate-top-k-subspace")
    commits = trc.commits()
    picks = trc.picks()
    ninit = len(seq) - len(picks)
    scale = 1.0
    if fam_fps:
        finite = [np.abs(c["table"][np.isfinite(c["table"])]).max(initial=0.0) for c in commits]
        scale = max(max(finite), float((sel.items(X, axis) ** 2).sum(axis=1).max()), 1e-300)
    tol = 1e-9 * scale if fam_fps else 5e-6  # pi: ARPACK tol 1e-12 over a relative gap >= 1e-6
    if f32:  # single-precision arithmetic inside the library: 1e-7 relative per operation
        tol = 1e-3 * scale if fam_fps else 5e-3
    # first step at which the cold trace shows a tie
    first_tie = None
    for t, pk in enumerate(picks):
        s = pk["scores"]
        if s is None:
            continue
        s = np.array(s, dtype=float)
        if not fam_fps:
            s[seq[: t + ninit]] = -np.inf
        top = np.sort(s[np.isfinite(s)])[::-1]
        if len(top) > 1 and top[0] - top[1] <= ((1e-3 if f32 else 1e-9) * scale if fam_fps else (2e-2 if f32 else 2e-5)):
            first_tie = t + ninit
            break
    cold_state = _state(cold, spec)
    cold_sd = cold_state.get("sd")

    # ---- the warm chain
    est = sel.make(spec)
    if case.get("unit", 1.0) < 1e-4:
        j.note("small_unit_cases")
    if case.get("past"):
        est.n_to_select = case["past"]["n"]
        j.lib("fit:earlier-history", sel.fit, est, case["past"]["X"], case["past"]["y"], spec)
        if spec["cls"] == "VoronoiFPS" and spec["kw"].get("full_fraction") is None:
            est.full_fraction = None  # the calibrated value was written into the parameter (known finding K3 of C09)
        j.note("estimators_with_a_past")
    diverged = False
    # whole-number data: every FPS distance is computed exactly, so a threshold EQUAL to a score is meaningful
    exact = spec["cls"] in ("FPS", "VoronoiFPS") and case.get("unit", 1.0) == 1.0 and bool(np.all(X == np.round(X))) and float(np.abs(X).max()) < 1e3
    for li, link in enumerate(links):
        if li > 0 and case.get("reject") and int(getattr(est, "n_selected_", 0)) >= 2:
            # a failure in the history: a warm start asking for fewer selections than were already made is refused,
            # the request is corrected and the chain goes on with the same object
            est.n_to_select = int(est.n_selected_) - 1
            vforms.rejected(j, "shrinking warm start", sel.fit, est, X, y, spec, warm=True)
            if spec["cls"] == "VoronoiFPS":
                # ... and a cold refit refused for an illegal switching point: the fit made before it stands
                ff_ = est.full_fraction
                est.full_fraction = (2.0, -0.5, "half")[li % 3]
                vforms.rejected(j, "cold refit with an illegal switching point", sel.fit, est, X, y, spec)
                est.full_fraction = ff_
        if li > 0 and case.get("carry") and case["carry"][li] != "same":
            est = j.lib("carry", vforms.carry, est, case["carry"][li], j)  # the chain continues on a copy of the object
        est.n_to_select = vforms.numpy_scalars({"n": link["n"]})["n"] if spec.get("npscalars") else link["n"]
        if link["threshold"]:
            est.score_threshold_type = link["threshold"]
            est.score_threshold = 1e-300
            t_last = link["resolved"] - 1 - ninit
            if exact and link["threshold"] == "absolute" and 0 <= t_last < len(picks) and picks[t_last]["scores"] is not None and picks[t_last]["chosen"] is not None:
                # the threshold sits exactly ON the smallest score the link has to accept: not below it, so not reached
                est.score_threshold = float(np.asarray(picks[t_last]["scores"], dtype=float)[picks[t_last]["chosen"]])
                j.note("thresholds_equal_to_a_score")
            elif link["threshold"] == "relative":
                # a relative threshold that means something: 0.9 x the smallest ratio (score of a pick / score of the
                # first scored pick) of the single cold fit - not reached there, hence not reached by any chain either,
                # whatever the scores do in between (those of the CUR family go up and down)
                sc_ = [float(np.asarray(p_["scores"], dtype=float)[p_["chosen"]]) for p_ in picks if p_.get("scores") is not None and p_.get("chosen") is not None]
                if len(sc_) >= 2 and sc_[0] > 0 and min(sc_) > 0 and np.all(np.isfinite(sc_)):
                    est.score_threshold = 0.9 * min(sc_) / sc_[0]
                    j.note("relative_thresholds_just_below_the_smallest_ratio")
            j.note("threshold_toggles")
        else:
            est.score_threshold = None
        j.lib(f"fit:link{li}", sel.fit, est, X, y, spec, warm=li > 0)
        e = link["resolved"]
        st = _state(est, spec)
        want = seq[:e]
        if st["idx"] != want:
            t = next((i for i, (a, b) in enumerate(zip(st["idx"], want)) if a != b), min(len(st["idx"]), len(want)))
            tie_ok = first_tie is not None and t >= first_tie and len(st["idx"]) == len(want)
            j.ok(
                "warm chain reaches the cold sequence (differences only from a tied step)",
                tie_ok,
                {"link": li, "schedule": [l["resolved"] for l in links], "chain": st["idx"], "cold": want, "first_tie": first_tie},
            )
            diverged = True
            j.note("divergence_at_tie" if tie_ok else "divergence")
            break
        j.ok("warm chain reaches the cold sequence (differences only from a tied step)", True)
        j.note("links_judged")
        if li > 0 and link["resolved"] == links[li - 1]["resolved"]:
            j.note("links_that_add_nothing")
        if spec["cls"] == "VoronoiFPS" and spec["kw"].get("full_fraction") is None:
            j.note("voronoi_links_with_calibrated_switching_point")
        j.ok("X_selected_ equals the cold fit's stored data", np.array_equal(st["Xs"], np.take(cold_state["Xs"], range(e), axis=axis)))
        if cold_state["ys"] is not None or st["ys"] is not None:
            good = st["ys"] is not None and cold_state["ys"] is not None and np.array_equal(st["ys"], cold_state["ys"][:e])
            j.ok("y_selected_ equals the cold fit's stored targets", good)
        if case.get("readers"):
            # public accessors are readers: whatever is read between two links, the state stays what it was
            rd = [lambda: est.get_support(), lambda: est.get_support(indices=True), lambda: est.get_support(indices=True, ordered=True), lambda: est.score(X, y)]
            if axis == 1:  # transform is documented as unsupported for sample selection
                rd.append(lambda: est.transform(X))
            if fam_fps:
                rd += [lambda: est.get_distance(), lambda: est.get_select_distance()]
            for k_, f_ in enumerate(rd):
                j.lib(f"reader{k_}", f_)
            st2 = _state(est, spec)
            same = st2["idx"] == st["idx"] and all(np.array_equal(st2[k_], st[k_]) for k_ in ("Xs", "table") if k_ in st) and (st.get("sd") is None or np.array_equal(st2["sd"], st["sd"]))
            j.ok("reading the selection through the public accessors leaves the fitted state untouched", same, lambda: {"before": st["idx"], "after": st2["idx"]})
            j.note("reader_rounds")
        ref_tab = commits[e - 1]["table"]
        if fam_fps:
            j.close("distance table after the link == cold fit's table after the same step", st["table"], ref_tab, tol, {"link": li, "e": e})
            j.close("select distances == cold fit's", st["sd"], cold_sd[:e], tol, {"link": li})
            if e == nfin and "at_select" in st and "at_select" in cold_state:
                j.close("per-item distance-at-selection table == cold fit's (no stale entries)", st["at_select"], cold_state["at_select"], tol)
        else:
            ok = np.allclose(st["table"], ref_tab, rtol=0, atol=tol)
            if not ok:
                _, gap_ok = sel.pi_oracle(spec, X, y, seq[:e] if re == 1 else [])
                if not gap_ok:
                    j.skip("pi-compare-at-degenerate-subspace")
                    ok = None
            if ok is not None:
                j.ok("pi after the link == cold fit's pi after the same step", ok, lambda: {"link": li, "e": e, "maxdiff": float(np.abs(st["table"] - ref_tab).max())})
            if e == nfin:
                nX = max(float(np.linalg.norm(X)), 1e-300)
                j.close("X_current_ == cold fit's residual", st["Xc"], cold_state["Xc"], (1e-4 if f32 else 1e-9) * nX)

    # ---- FPS initialised with a prefix of the cold run reproduces it
    if spec["cls"] == "FPS" and nfin >= 2 and not diverged:
        L = 1 + (len(links) % (nfin - 1)) if nfin > 2 else 1
        kw2 = dict(spec["kw"])
        kw2["initialize"] = {"list": seq[:L]}
        kw2["n_to_select"] = nfin
        est2 = sel.make({"dir": spec["dir"], "cls": "FPS", "kw": kw2})
        j.lib("fit:prefix-init", sel.fit, est2, X, y, spec)
        got = [int(v) for v in est2.selected_idx_]
        if got != seq:
            t = next(i for i, (a, b) in enumerate(zip(got, seq)) if a != b)
            j.ok("FPS initialised with the selected prefix reproduces the cold run", first_tie is not None and t >= first_tie, {"got": got, "cold": seq, "L": L})
        else:
            j.ok("FPS initialised with the selected prefix reproduces the cold run", True)
            j.close("prefix-initialised FPS: same distance table", est2.get_distance(), cold_state["table"], tol)
            j.close("prefix-initialised FPS: same select distances", np.asarray(est2.get_select_distance())[L:], cold_sd[L:], tol)
        j.note("prefix_init_fits")

    if case["exhaustive"]:
        j.note("exhaustive_schedule_cases")
    j.nontrivial = len(links) >= 2
    j.sample = {
        "selector": f"{spec['dir']}.{spec['cls']}",
        "kw": brief(spec["kw"]),
        "X": f"{X.shape} {case['kind']}",
        "schedule": [l["n"] for l in links],
        "thresholds": [l["threshold"] for l in links],
        "cold_sequence": seq,
        "first_tie_step": first_tie,
        "exhaustive_block": case["exhaustive"],
    }


def evidence_extra(recs, tier):
    return {
        "exhaustive": False,
        "exhaustive_subspace": f"every increasing schedule ending in n for 2 <= n <= {EXH_N[tier]} x 13 variants x {EXH_DATA[tier]} data sets = {len(_EXH[tier])} cases (enumerated completely; the remaining cases are sampled)",
    }
