"""C01 - every selector returns a consistent set of distinct, valid indices.

Monitor: GreedyTrace (per-pick scores / per-commit indices) + post-fit state contract
evaluated at the exit of every successful fit (cold and every link of a warm chain).
Oracle: set / slice algebra on the caller's X, y and the traced commits.
"""

from __future__ import annotations

import numpy as np

from .. import forms, gens, rt, sel
from ..common import Skip, brief

ID = "C01"
CASES = {"quick": 4500, "thorough": 60000}
FLOOR = {"quick": 3000, "thorough": 40000}
FLOOR_COUNTERS = {
    "quick": {"compact_dtype_seeds_with_many_candidates": 100, "configured_not_by_constructor": 1500, "non_default_containers": 1500, "integer_typed_inputs": 250, "threshold_stops": 200, "warm_links": 1000, "fits": 4000, "estimators_with_a_past": 800, "small_unit_cases": 200},
    "thorough": {"compact_dtype_seeds_with_many_candidates": 1500, "configured_not_by_constructor": 20000, "non_default_containers": 20000, "integer_typed_inputs": 3500, "threshold_stops": 800, "warm_links": 4000, "fits": 30000, "estimators_with_a_past": 10000, "small_unit_cases": 3000},
}
RULE = (
    "case = (selector class x direction [9 variants, round-robin], matrix family, n_to_select form "
    "int/float/None per chain link, initialisation int/'random'/list/ndarray, threshold none/absolute/relative "
    "reached or not (derived from a dry run's traced scores), warm chain of 1-4 links, y None/1-D); "
    "the post-fit contract is judged after every link. non-trivial = >=2 selections and at least one of "
    "{threshold stop traced, warm chain, non-int n_to_select, list initialisation, rank-deficient/duplicated/"
    "lattice data}; distinct by hash of the whole case (spec + data)."
)
ASSUMPTIONS = [
    "X is float64 or integer-typed whole numbers, in any of the containers of the routes",
    "selectors reject 2-D targets in _validate_data, so y is None or 1-D",
    "per-pick scores are the selector's own (their correctness is C02/C07); here they only decide threshold claims",
    "steps after the candidates are numerically exhausted are classified as known finding K2, not judged for distinctness",
]
RULE = RULE + " " + forms.RULE_SUFFIX
RULE = RULE + " " + 'CUR family, 1 in 6: items in mixed units (one to three of order one, the rest 6-8 decades smaller).'

DEFICIENT = ("lowrank", "dup_rows", "dup_cols", "lattice", "collinear")


def _n_form(rng, e, N):
    r = rng.random()
    if e == N // 2 and r < 0.3:
        return None
    if r < 0.55:
        return int(e)
    return 1.0 if e == N else float((e + 0.5) / N)


def gen(rng, tier, index):
    direction, cls = sel.VARIANTS[index % len(sel.VARIANTS)]
    hi = 13 if tier == "quick" else 28
    n, m = int(rng.integers(2, hi)), int(rng.integers(2, hi))
    kind = gens.pick(rng, gens.MATRIX_KINDS)
    many = cls == "FPS" and index % 45 < 9  # more candidates than a compact integer dtype can count (seeds given as uint8)
    if many:
        big, small = int(rng.integers(258, 420)), int(rng.integers(3, 7))
        n, m = (small, big) if direction == "feature" else (big, small)
        kind = "gauss"
    X = gens.matrix(rng, n, m, kind)
    if cls in sel.CUR_FAMILY and (index // len(sel.VARIANTS)) % 6 == 1 and min(n, m) >= 3:
        # items in mixed units: one to three of order one, the others 6 to 8 decades smaller (all of full rank): their
        # importance scores are tiny, not zero, and stay distinct
        r2 = np.random.default_rng(index)
        Nax = m if direction == "feature" else n
        small = np.ones(Nax, bool)
        small[r2.permutation(Nax)[: int(r2.integers(1, 4))]] = False
        fac = np.where(small, 10.0 ** -r2.uniform(6, 8, size=Nax), 1.0)
        X = r2.normal(size=(n, m))
        X = X * fac[None, :] if direction == "feature" else X * fac[:, None]
        kind = "mixed_units"
    unit = 1.0
    if rng.random() < 0.25:  # the same data in small / large units (exact power of two)
        unit = float(2.0 ** int(rng.integers(-26, 14)))
        X = X * unit
    spec = {"dir": direction, "cls": cls, "kw": {}}
    axis = sel.axis_of(spec)
    N = X.shape[axis]
    y = None
    if sel.needs_y(spec) or rng.random() < 0.4:
        y = gens.target(rng, X, gens.pick(rng, ("linear", "noise")), 1)
    kw = spec["kw"]
    init_len = 0
    if cls in sel.FPS_FAMILY:
        init_len = 1
        r = rng.random()
        if r < 0.4:
            kw["initialize"] = int(rng.integers(N))
        elif r < 0.55:
            kw["initialize"] = "random"
            kw["random_state"] = int(rng.integers(100))
        elif cls == "FPS":
            L = int(rng.integers(1, max(2, N // 2 + 1)))
            lst = [int(i) for i in rng.permutation(N)[:L]]
            kw["initialize"] = {"list": lst} if rng.random() < 0.5 else {"array": lst}
            init_len = L
        if many:  # seeds that fit a compact unsigned dtype, given in that dtype (array or list of numpy scalars)
            L = int(rng.integers(1, 4))
            lst = [int(i) for i in rng.permutation(250)[:L]]
            kw["initialize"] = {("array" if rng.random() < 0.6 else "list"): lst, "dtype": gens.pick(rng, ("uint8", "uint8", "uint16", "int16"))}
            init_len = L
        else:
            kw["initialize"] = int(rng.integers(N))
    if cls in sel.CUR_FAMILY:
        kw["recompute_every"] = int(gens.pick(rng, (1, 1, 0, 2, 3)))
        kw["k"] = int(rng.integers(1, max(2, min(3, min(n, m) - 1) + 1))) if min(n, m) > 2 else 1
    if cls == "PCovCUR":
        kw["mixing"] = float(gens.pick(rng, (0.0, 0.1, 0.5, 0.9, 1.0)))
    if cls == "PCovFPS":
        kw["mixing"] = float(gens.pick(rng, (0.0, 0.1, 0.5, 0.9)))
    if cls == "VoronoiFPS":
        kw["full_fraction"] = gens.pick(rng, (None, 0.01, 0.5, 1.0))
        kw["n_trial_calculation"] = int(gens.pick(rng, (1, 4)))
    # chain of resolved sizes
    lo = max(1, init_len)
    L = int(gens.pick(rng, (1, 1, 1, 2, 2, 3, 4)))
    L = min(L, N - lo + 1)
    if many:
        sizes = sorted(int(v) for v in rng.choice(np.arange(lo, lo + 12), size=min(L, 3), replace=False))
    else:
        sizes = None
    sizes = sizes or sorted(int(v) for v in rng.choice(np.arange(lo, N + 1), size=L, replace=False))
    if rng.random() < 0.25 and N // 2 >= lo and N // 2 not in sizes and L == 1:
        sizes = [N // 2]
    chain = [{"n": _n_form(rng, e, N), "resolved": e} for e in sizes]
    thr = {"mode": "none"}
    if rng.random() < 0.5:
        thr = {
            "mode": gens.pick(rng, ("absolute", "relative")),
            "reached": bool(rng.random() < 0.6),
            "u": float(rng.random()),
        }
    decoy = None
    if rng.random() < 0.3:
        # the estimator object has a past: an earlier cold fit on other data of the same shape,
        # possibly with a (relative) threshold that is switched off again afterwards
        decoy = {
            "X": forms.sibling_or(X, rng.normal(size=X.shape), unit * float(10.0 ** rng.uniform(-1, 1))),
            "y": None if y is None else rng.normal(size=len(X)),
            "n": int(rng.integers(lo, N + 1)),
            "thr": gens.pick(rng, (None, ("relative", 0.5), ("relative", 0.05), ("absolute", 1e-3 * unit**2))),
        }
    if rng.random() < 0.12 and float(np.abs(X).max()) > 0:  # whole-number data (counts, grid indices) with an integer dtype
        X = np.round(X / float(np.abs(X).max()) * 40.0)
        spec["xint"] = gens.pick(rng, ("int64", "int32"))
    # the same configuration and the same numbers through another public route / container
    spec["how"] = gens.pick(rng, forms.CONFIGURE)
    spec["xform"] = gens.pick(rng, forms.PRESENT)
    spec["yform"] = gens.pick(rng, forms.PRESENT)
    spec["clobber"] = bool(rng.random() < 0.5)
    spec["npscalars"] = bool(rng.random() < 0.3)
    spec["reject"] = bool(rng.random() < 0.4)
    spec["carry"] = gens.pick(rng, forms.CARRY)
    return {
        "spec": spec,
        "X": X,
        "y": y,
        "kind": kind,
        "chain": chain,
        "threshold": thr,
        "Z": rng.normal(size=(3, m)) * unit,
        "unit": unit,
        "decoy": decoy,
    }


def _col(a):
    a = np.asarray(a)
    return a.reshape(a.shape[0], int(np.prod(a.shape[1:], dtype=int)))


def _dry_scores(case):
    """Traced chosen scores of an un-thresholded cold fit (workload derivation only)."""
    spec = case["spec"]
    est = sel.make(spec)
    est.n_to_select = case["chain"][-1]["n"]
    tr = rt.GreedyTrace(est, tables=False)
    try:
        sel.fit(est, case["X"], case["y"], spec)
    except Exception:
        return None
    return [float(e["scores"][e["chosen"]]) for e in tr.picks() if e["chosen"] is not None and e["scores"] is not None]


def _threshold_value(case):
    thr = case["threshold"]
    if thr["mode"] == "none":
        return None
    s = _dry_scores(case)
    if not s:
        return None
    chain = case["chain"]
    nlast = chain[-1]["resolved"] - (chain[-2]["resolved"] if len(chain) > 1 else 0)
    nlast = min(max(nlast, 1), len(s))
    lo = len(s) - nlast
    if lo >= len(s):
        return None
    if thr["reached"]:
        q = lo + int(thr["u"] * (len(s) - lo))
        prev = min(s[lo:q]) if q > lo else None
        val = 0.5 * (s[q] + prev) if prev is not None and prev > s[q] else s[q] * (1 + 1e-6) + 1e-300
    else:
        mn = min(s[lo:])
        val = mn / 2 if mn > 0 else -1.0
    if thr["mode"] == "relative":
        first = s[lo]
        if not np.isfinite(first) or first <= 0:
            return ("absolute", val)
        return ("relative", val / first)
    return ("absolute", val)


def spec_of(est):
    """{"dir","cls","kw"} description of a live selector (for the reference models)."""
    cls = type(est).__name__
    kw = {k: getattr(est, k) for k in ("mixing", "k", "recompute_every") if hasattr(est, k)}
    return {"dir": getattr(est, "selection_type", "sample"), "cls": cls, "kw": kw}


def post_fit_contract(j, est, spec, X, y, seq, evs, n_to_select, Z=None, expect_resolved=None):
    """State contract evaluated at the exit of a successful fit (cold or warm).

    seq  - indices committed by earlier fits of the same chain (extended in place with this fit's)
    evs  - GreedyTrace events of this fit.  Returns True when a threshold stop was traced."""
    axis = sel.axis_of(spec)
    N = X.shape[axis]
    n_other = X.shape[1 - axis]
    Yc = None if y is None else np.asarray(y, dtype=float).reshape(X.shape[0], -1)
    commits = [e for e in evs if e["ev"] == "commit"]
    picks = [e for e in evs if e["ev"] == "pick"]
    stops = [e for e in picks if e["chosen"] is None]
    seq.extend(e["idx"] for e in commits)
    stop = bool(stops)
    E = sel.resolve_n(n_to_select, N)
    if expect_resolved is not None:
        j.ok("generator: implied size", E == expect_resolved, (E, expect_resolved))

    ns = int(est.n_selected_)
    idx = np.asarray(est.selected_idx_)
    if len(seq) != ns and len(idx) == ns and not stop:
        # the per-commit wrap point was not driven for every selection (refactored internals): the
        # private trace only adds observability, the public sequence decides
        seq[:] = [int(v) for v in idx]
        j.note("trace_incomplete_public_sequence_used")
    Xs = np.asarray(est.X_selected_)
    has_y = hasattr(est, "y_selected_") and Yc is not None and axis == 0
    nloop = sum(1 for e in picks if e["chosen"] is not None)

    # ---- classifier K1: threshold stop cut selected_idx_/y_selected_ to the loop counter
    k1 = False
    if stop and ns == len(seq) and len(idx) != ns:
        k1 = list(map(int, idx)) == [int(v) for v in seq[:nloop]] and Xs.shape[axis] == ns
        k1 = k1 and np.array_equal(Xs, np.take(X, seq, axis=axis))
        if has_y:
            k1 = k1 and np.array_equal(_col(est.y_selected_), Yc[seq][:nloop])
    K1 = "K1" if k1 else None

    # ---- reported counts
    j.ok("n_selected_ counts every commit", ns == len(seq), (ns, len(seq)))
    j.ok("len(selected_idx_) == n_selected_", len(idx) == ns, {"len": len(idx), "n_selected_": ns, "stop": stop, "nloop": nloop}, K1)
    j.ok("X_selected_ has n_selected_ items", Xs.ndim == 2 and Xs.shape[axis] == ns and Xs.shape[1 - axis] == n_other, Xs.shape)
    if not stop:
        j.ok("n_selected_ == size implied by n_to_select", ns == E, {"n_selected_": ns, "implied": E, "n_to_select": n_to_select})
    else:
        j.note("threshold_stops")
        j.ok("threshold stop gives fewer than implied", ns < E, (ns, E))
        t_type, t_val = est.score_threshold_type, est.score_threshold
        first = getattr(est, "first_score_", None)
        cold = any(e["ev"] == "start" and e.get("mode") == "cold" for e in evs)
        scored = [e for e in picks if e["scores"] is not None]
        if t_type == "relative" and cold and scored:
            e0 = scored[0]
            ref0 = float(e0["scores"][e0["chosen"]]) if e0["chosen"] is not None else float(np.max(e0["scores"]))
            j.ok("a relative threshold refers to the first score of THIS search", first is not None and float(first) == ref0, {"first_score_": first, "first_score_traced": ref0})

        def below(s):
            with np.errstate(all="ignore"):
                return (s < t_val) if t_type == "absolute" else (s / first < t_val)

        for e in picks:
            if e["scores"] is None:
                continue
            if e["chosen"] is not None:
                j.ok("kept selection has score >= threshold", not below(e["scores"][e["chosen"]]), (e["scores"][e["chosen"]], t_type, t_val, first))
            else:
                j.ok("stop only when best score < threshold", bool(below(np.max(e["scores"]))), (float(np.max(e["scores"])), t_type, t_val, first))

    # ---- the sequence itself
    j.ok("selected_idx_ is integral", np.issubdtype(idx.dtype, np.integer), str(idx.dtype))
    j.ok("selected_idx_ == committed picks (in order)", list(map(int, idx)) == [int(v) for v in seq], {"idx": idx, "commits": seq}, K1)
    j.ok("indices in range", bool(np.all((idx >= 0) & (idx < N))), idx)
    rep = sel.first_repeat([int(v) for v in seq])
    if rep is None:
        j.ok("indices pairwise distinct", True)
    else:
        S = [int(v) for v in seq[:rep]]
        k2 = sel.exhausted(spec, X, y, S)
        if not k2:
            # same mechanism without exhaustion: every score the argmax saw for the unselected items was
            # zero (stale leverage scores of mutually orthogonal items), so it returned a masked item
            kept = [e for e in picks if e["chosen"] is not None and e["scores"] is not None]
            pos = rep - (len(seq) - len(kept))
            if 0 <= pos < len(kept):
                sc = np.asarray(kept[pos]["scores"], dtype=float)
                un = np.setdiff1d(np.arange(N), S)
                top = float(np.max(np.abs(sc))) if sc.size else 0.0
                k2 = bool(len(un) and np.max(sc[un]) <= 1e-12 * max(top, 1e-300) and np.max(sc) <= 1e-12 * max(top, 1e-300) + 0.0)
        j.ok(
            "indices pairwise distinct",
            False,
            {"repeat": int(seq[rep]), "step": rep, "seq": seq, "exhausted": k2},
            "K2" if k2 else None,
        )
        j.note("repeats_seen")

    # ---- derived views
    j.ok("X_selected_ == X sliced at the selection (bitwise)", Xs.shape[axis] == len(seq) and np.array_equal(Xs, np.take(X, seq, axis=axis)))
    if has_y:
        ys = np.asarray(est.y_selected_)
        good = ys.shape[0] == len(seq) and np.array_equal(_col(ys), Yc[seq])
        j.ok("y_selected_ == y sliced at the selection", good, {"shape": ys.shape, "n": len(seq)}, K1)
    elif hasattr(est, "y_selected_") and Yc is None:
        j.ok("no y_selected_ without y", False, "y_selected_ present although fitted without y")
    mask = np.zeros(N, bool)
    mask[[int(v) for v in idx]] = True
    sup = np.asarray(est.support_)
    j.ok("support_ is a bool mask of the selected axis", sup.dtype == bool and sup.shape == (N,), (sup.dtype, sup.shape))
    j.ok("support_ marks exactly the selected indices", sup.shape == (N,) and np.array_equal(sup, mask))
    j.ok("get_support() == support_", np.array_equal(np.asarray(est.get_support()), mask))
    j.ok("get_support(indices=True) sorted", list(est.get_support(indices=True)) == sorted(int(v) for v in idx))
    j.ok("get_support(indices=True, ordered=True) is the sequence", list(est.get_support(indices=True, ordered=True)) == [int(v) for v in idx])
    if axis == 1:
        T = j.lib("transform", est.transform, X)
        j.ok("transform(X) == X[:, support_]", np.array_equal(T, X[:, mask]))
        if Z is not None:
            TZ = j.lib("transform", est.transform, Z)
            j.ok("transform(Z) == Z[:, support_]", np.array_equal(TZ, Z[:, mask]))
    return stop


def run(case, j):
    spec, X, y = case["spec"], case["X"], case["y"]
    if spec.get("how", "ctor") != "ctor":
        j.note("configured_not_by_constructor")
    if spec.get("xform", "C") != "C":
        j.note("non_default_containers")
    if spec.get("xint"):
        j.note("integer_typed_inputs")
    if spec.get("npscalars"):
        j.note("numpy_scalar_parameters")
    if isinstance(spec["kw"].get("initialize"), dict) and spec["kw"]["initialize"].get("dtype"):
        j.note("compact_dtype_seeds_with_many_candidates")
    est = sel.make(spec)
    tr = rt.GreedyTrace(est)
    if tr.missing:
        j.note("wrap_points_missing", len(tr.missing))
    thr = _threshold_value(case)
    chain = case["chain"]
    j.tag(f"{spec['dir']}:{spec['cls']}", f"data:{case['kind']}", f"chain:{len(chain)}", f"thr:{case['threshold']['mode']}")
    if case.get("unit", 1.0) != 1.0:
        j.tag("unit:small" if case["unit"] < 1 else "unit:large")
        if case["unit"] < 1e-4:
            j.note("small_unit_cases")
    if spec.get("reject"):
        forms.rejected(j, "warm start of a never-fitted selector", sel.fit, est, X, y, spec, warm=True)
    dc = case.get("decoy")
    if dc:
        est.n_to_select = dc["n"]
        if dc["thr"]:
            est.score_threshold_type, est.score_threshold = dc["thr"][0], float(dc["thr"][1])
        j.lib("fit:earlier-history", sel.fit, est, dc["X"], dc["y"], spec)
        est.score_threshold, est.score_threshold_type = None, "absolute"
        if spec["cls"] == "VoronoiFPS" and spec["kw"].get("full_fraction") is None:
            # the timing-calibrated value was written into the parameter (known finding K3 of C09; a value of 0, which
            # a loaded machine produces now and then, makes the next cold fit raise): re-configured like the rest
            est.full_fraction = None
        j.note("estimators_with_a_past")
    seq = []
    any_stop = False
    for li, link in enumerate(chain):
        if li > 0 and spec.get("reject") and int(getattr(est, "n_selected_", 0)) >= 2:
            # a failure in the history: a warm start that asks for fewer selections than were already made is refused;
            # the request is then corrected and the chain goes on with the same object
            est.n_to_select = int(est.n_selected_) - 1
            forms.rejected(j, "shrinking warm start", sel.fit, est, X, y, spec, warm=True)
        params = {"n_to_select": link["n"]}
        if thr is not None and li == len(chain) - 1:
            params.update(score_threshold_type=thr[0], score_threshold=float(thr[1]))
        if spec.get("npscalars"):
            params = forms.numpy_scalars(params)
        for k_, v_ in params.items():  # VoronoiFPS takes **kwargs, so set_params does not know n_to_select
            setattr(est, k_, v_)
        if li > 0 and spec.get("carry", "same") != "same":
            # the chain continues on a deep copy / an unpickled copy of the fitted object
            tr.detach()
            est = j.lib("carry", forms.carry, est, spec["carry"], j)
            tr.attach(est)
        before = len(tr.events)
        j.lib("fit", sel.fit, est, X, y, spec, warm=li > 0)
        j.note("fits")
        if li > 0:
            j.note("warm_links")
        stop = post_fit_contract(j, est, spec, X, y, seq, tr.events[before:], link["n"], Z=case["Z"], expect_resolved=link["resolved"])
        any_stop |= stop
        if stop:
            break  # a later warm link would start from the K1 state

    j.nontrivial = len(seq) >= 2 and (
        any_stop
        or len(chain) > 1
        or any(not isinstance(l["n"], int) for l in chain)
        or isinstance(spec["kw"].get("initialize"), dict)
        or case["kind"] in DEFICIENT
    )
    j.sample = {
        "selector": f"{spec['dir']}.{spec['cls']}",
        "kw": brief(spec["kw"]),
        "X": f"{X.shape} {case['kind']}",
        "chain": [l["n"] for l in chain],
        "threshold": thr,
        "committed": [int(v) for v in seq],
        "selected_idx_": [int(v) for v in np.asarray(est.selected_idx_)],
        "threshold_stop": any_stop,
        "trace_events": len(tr.events),
    }


EXTRA_TIERS = ("quick", "thorough")  # the selector tests take ~5 s under the contract


def extra_run(tier):
    """The repository's own selector tests with the post-fit contract switched on."""
    from .. import suite

    tests = ["tests/test_feature_simple_fps.py", "tests/test_feature_simple_cur.py", "tests/test_feature_pcov_fps.py", "tests/test_feature_pcov_cur.py", "tests/test_sample_simple_fps.py", "tests/test_sample_pcov_fps.py", "tests/test_sample_pcov_cur.py", "tests/test_voronoi_fps.py", "tests/test_greedy_selector.py", "tests/test_check_estimators.py"]
    r = suite.run_suite(["selectors"], tests=tests)
    r["contracts"] = ["selectors"]
    if not r["inconclusive"] and r["counters"].get("suite:selector_post_fit_contract", 0) < 100:
        r["inconclusive"].append("fewer than 100 selector fits of the repository's tests were seen by the contract")
    return r
