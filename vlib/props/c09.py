"""C09 - calls never modify caller data or hyper-parameters; refits start from scratch.

Monitor (M3): every array / index list reachable from the arguments of every public
entry point is (a) byte-snapshotted before and after the call and (b) passed as a
write-protected buffer (C / Fortran / strided view), so an in-place write to caller
memory faults at the offending statement even when it would leave the bytes unchanged;
(c) every pre-existing public attribute (hyper-parameter) is compared before / after fit;
fitted public state of a refitted estimator is diffed against a fresh one.
Oracle: identity (bytes), equality of fitted state, equality of repeated calls.
"""

from __future__ import annotations

import copy
import warnings

import numpy as np

from .. import gens, rt
from ..common import Skip, brief

ID = "C09"


# ============================================================================ scenarios
#  data(rng, k) -> dict of caller-owned arguments (k = 0: first data set, 1: a second one of another size)
#  est(a)       -> constructed estimator (constructor arguments come from the caller's dict)
#  fit(e, a)    -> the return value of fit
#  use(e, a)    -> dict of outputs of the public methods
#  call(a)      -> for plain functions: dict of outputs


def _xy(rng, k, n=(14, 9), m=(7, 5), p=1, centred=False, wide=False):
    nn, mm = n[k], m[k]
    X = rng.normal(size=(nn, mm)) * 10.0 ** rng.uniform(-0.3, 0.3, size=mm)
    if centred:
        X = X - X.mean(axis=0)
    Y = X @ rng.normal(size=(mm, p)) + 0.2 * rng.normal(size=(nn, p))
    if centred:
        Y = Y - Y.mean(axis=0)
    return X, (Y[:, 0].copy() if p == 1 else Y)


def _selector(direction, cls, needs_y, extra=None, with_y=True, n_form=3):
    def data(rng, k):
        X, y = _xy(rng, k)
        a = {"X": X}
        if needs_y or with_y:
            a["y"] = y
        if extra == "list_init":
            a["init"] = [1, 3]
        if extra == "array_init":
            a["init"] = np.array([2, 0])
        return a

    def est(a):
        from skmatter import feature_selection as fs
        from skmatter import sample_selection as ss

        mod = fs if direction == "feature" else ss
        kw = {"n_to_select": n_form}
        if extra == "threshold":
            kw.update(n_to_select=5, score_threshold=1e-6, score_threshold_type="relative")
        if "init" in a:
            kw["initialize"] = a["init"]
        if cls == "VoronoiFPS":
            kw["full_fraction"] = 0.4
        if cls == "VoronoiFPS_default":
            return ss.VoronoiFPS(n_to_select=3)
        return getattr(mod, cls)(**kw)

    def fit(e, a):
        return e.fit(a["X"], a["y"]) if "y" in a else e.fit(a["X"])

    def use(e, a):
        out = {"support": e.get_support(), "idx": e.get_support(indices=True, ordered=True)}
        if direction == "feature":
            out["T"] = e.transform(a["X"])
        if hasattr(e, "get_distance"):
            out["d"], out["sd"] = e.get_distance(), e.get_select_distance()
        return out

    def reject(e, a):
        # a warm start of a never-fitted selector is refused (after the request has been resolved)
        return e.fit(a["X"], a["y"], warm_start=True) if "y" in a else e.fit(a["X"], warm_start=True)

    return dict(data=data, est=est, fit=fit, use=use, reject=reject, drop_y=(direction == "sample" and not needs_y and with_y))


def _dch(low_form="list"):
    def data(rng, k):
        X, y = _xy(rng, k, n=(16, 11), m=(4, 3))
        # the hull columns as a list, or as an index array that counts from the end (the caller's own array)
        return {"X": X, "y": y, "low": [1, 0] if low_form == "list" else np.array([-1, 0])}

    def est(a):
        from skmatter.sample_selection import DirectionalConvexHull

        return DirectionalConvexHull(low_dim_idx=a["low"])

    return dict(data=data, est=est, fit=lambda e, a: e.fit(a["X"], a["y"]), use=lambda e, a: {"s": e.score_samples(a["X"], a["y"]), "r": e.score_feature_matrix(a["X"]), "idx": e.selected_idx_})


def _pcovr(space, reg, solver="auto"):
    def data(rng, k):
        X, Y = _xy(rng, k, p=2, centred=True)
        a = {"X": X, "Y": Y}
        if reg == "precomputed":
            W = np.linalg.pinv(X) @ Y
            a["Y"], a["W"] = X @ W, W
        return a

    def est(a):
        from sklearn.linear_model import Ridge

        from skmatter.decomposition import PCovR

        r = {"none": None, "ridge": Ridge(alpha=1e-3, fit_intercept=False), "precomputed": "precomputed"}[reg]
        extra = {} if solver == "auto" else {"svd_solver": solver, "random_state": 7}
        return PCovR(mixing=0.5, n_components=2, space=space, regressor=r, **extra)

    def fit(e, a):
        return e.fit(a["X"], a["Y"], W=a["W"]) if "W" in a else e.fit(a["X"], a["Y"])

    def use(e, a):
        T = e.transform(a["X"])
        return {"T": T, "P": e.predict(a["X"]), "PT": e.predict(T=T), "Xr": e.inverse_transform(T), "s": e.score(a["X"], a["Y"])}

    return dict(data=data, est=est, fit=fit, use=use, fit_transform=lambda e, a: e.fit_transform(a["X"], a["Y"]) if hasattr(e, "fit_transform") and reg != "precomputed" else None, ft_ref=lambda e, a: e.transform(a["X"]))


def _kpcovr(kernel, center=False):
    def data(rng, k):
        X, Y = _xy(rng, k, p=2, centred=True)
        if kernel == "precomputed":
            return {"X": (X + 1.0) @ (X + 1.0).T, "Y": Y}
        return {"X": X, "Y": Y}

    def est(a):
        from skmatter.decomposition import KernelPCovR

        if kernel == "precomputed":
            return KernelPCovR(mixing=0.5, n_components=2, kernel="precomputed", center=center)
        if kernel == "rbf+krr":
            from sklearn.kernel_ridge import KernelRidge

            return KernelPCovR(mixing=0.5, n_components=2, kernel="rbf", gamma=0.2, regressor=KernelRidge(kernel="rbf", gamma=0.2, alpha=1e-2))
        return KernelPCovR(mixing=0.5, n_components=2, kernel="rbf", gamma=0.2, center=True, fit_inverse_transform=True)

    def use(e, a):
        T = e.transform(a["X"])
        out = {"T": T, "P": e.predict(a["X"]), "s": e.score(a["X"], a["Y"])}
        if kernel == "rbf":
            out["Xr"] = e.inverse_transform(T)
        return out

    return dict(data=data, est=est, fit=lambda e, a: e.fit(a["X"], a["Y"]), use=use)


def _sfs(copy_flag, column_wise):
    def data(rng, k):
        X, _ = _xy(rng, k)
        return {"X": X + 3.0, "w": rng.uniform(0.2, 2, size=len(X))}

    def est(a):
        from skmatter.preprocessing import StandardFlexibleScaler

        return StandardFlexibleScaler(copy=copy_flag, column_wise=column_wise)

    def use(e, a):
        T = e.transform(a["X"])
        return {"T": T, "back": e.inverse_transform(T)}

    return dict(data=data, est=est, fit=lambda e, a: e.fit(a["X"], sample_weight=a["w"]), use=use, fit_transform=lambda e, a: e.fit_transform(a["X"]), ft_ref=lambda e, a: e.fit(a["X"]).transform(a["X"]))


def _kn(weighted=True):
    def data(rng, k):
        X, _ = _xy(rng, k)
        F = rng.normal(size=(5, X.shape[1]))
        return {"K": X @ X.T, "Kt": F @ X.T, "w": rng.uniform(0.2, 2, size=len(X)) if weighted else None}

    def est(a):
        from skmatter.preprocessing import KernelNormalizer

        return KernelNormalizer()

    return dict(
        data=data,
        est=est,
        fit=lambda e, a: e.fit(a["K"], sample_weight=a["w"]),
        use=lambda e, a: {"T": e.transform(a["K"]), "Tt": e.transform(a["Kt"])},
        fit_transform=lambda e, a: e.fit_transform(a["K"], sample_weight=a["w"]),
        ft_ref=lambda e, a: e.fit(a["K"], sample_weight=a["w"]).transform(a["K"]),
    )


def _skc():
    def data(rng, k):
        X, _ = _xy(rng, k)
        A = X[:4]
        return {"Knm": X @ A.T, "Kmm": A @ A.T, "w": rng.uniform(0.2, 2, size=len(X))}

    def est(a):
        from skmatter.preprocessing import SparseKernelCenterer

        return SparseKernelCenterer()

    return dict(
        data=data,
        est=est,
        fit=lambda e, a: e.fit(a["Knm"], a["Kmm"], sample_weight=a["w"]),
        use=lambda e, a: {"T": e.transform(a["Knm"])},
        fit_transform=lambda e, a: e.fit_transform(a["Knm"], a["Kmm"], sample_weight=a["w"]),
        ft_ref=lambda e, a: e.fit(a["Knm"], a["Kmm"], sample_weight=a["w"]).transform(a["Knm"]),
    )


def _r2f(cvkind):
    def _fit(e, a):
        if cvkind == "global_seed":
            np.random.seed(11)  # the caller seeds NumPy's global generator and leaves random_state=None
        return e.fit(a["X"], a["Y"])

    def data(rng, k):
        X, Y = _xy(rng, k, p=2)
        a = {"X": X, "Y": Y, "alphas": np.array([1e-3, 0.1, 0.5])}
        if cvkind == "pairs":
            n = len(X)
            a["cv"] = [(np.arange(0, n // 2), np.arange(n // 2, n)), (np.arange(n // 2, n), np.arange(0, n // 2))]
        return a

    def est(a):
        from skmatter.linear_model import Ridge2FoldCV

        return Ridge2FoldCV(alphas=a["alphas"], alpha_type="relative", regularization_method="cutoff", cv=a.get("cv"), random_state=None if cvkind == "global_seed" else 3, shuffle=True)

    return dict(data=data, est=est, fit=_fit, use=lambda e, a: {"P": e.predict(a["X"]), "cv": np.asarray(e.cv_values_), "alpha": e.alpha_})


def _orth(projector):
    def data(rng, k):
        X, Y = _xy(rng, k, p=3)
        return {"X": X, "Y": Y}

    def est(a):
        from skmatter.linear_model import OrthogonalRegression

        return OrthogonalRegression(use_orthogonal_projector=projector)

    return dict(data=data, est=est, fit=lambda e, a: e.fit(a["X"], a["Y"]), use=lambda e, a: {"P": e.predict(a["X"])})


def _skde(periodic, weighted, normalised=False, loc="fpoints"):
    def data(rng, k):
        n = (40, 28)[k]
        D = np.vstack([rng.normal(size=(n // 2, 2)), rng.normal(size=(n - n // 2, 2)) + 4])
        a = {"D": D, "G": D[rng.permutation(n)[:6]].copy(), "Q": D[:4] + 0.3}
        if weighted:
            w = rng.uniform(0.5, 2.0, size=n)
            a["w"] = w / w.sum() if normalised else w
        if periodic:
            a["mp"] = {"cell_length": np.array([12.0, 14.0])}
        return a

    def est(a):
        from skmatter.neighbors import SparseKDE

        kw = {"fpoints": 0.4} if loc == "fpoints" else {"fspread": 0.5}
        return SparseKDE(a["D"], a.get("w"), metric_params=a.get("mp"), **kw)

    return dict(data=data, est=est, fit=lambda e, a: e.fit(a["G"]), use=lambda e, a: {"s": e.score_samples(a["Q"]), "S": e.score(a["Q"]), "bw": e.bandwidth_, "draw": e.sample(5, random_state=3)}, same_ctor_data=True)


def _quickshift(mode, scale):
    def data(rng, k):
        n = (18, 12)[k]
        X = rng.normal(size=(n, 2)) * 2
        a = {"X": X, "w": rng.permutation(n).astype(float) + 0.5}
        if mode == "cutoff":
            a["cuts"] = np.full(n, 2.5) + rng.random(n)
        if mode == "gabriel_cell":
            a["mp"] = {"cell_length": np.array([9.0, 11.0])}
        return a

    def est(a):
        from skmatter.clustering import QuickShift

        if mode == "cutoff":
            return QuickShift(a["cuts"], scale=scale)
        return QuickShift(gabriel_shell=2, metric_params=a.get("mp"))

    return dict(data=data, est=est, fit=lambda e, a: e.fit(a["X"], samples_weight=a["w"]), use=lambda e, a: {"labels": e.labels_, "centres": e.cluster_centers_idx_})


def _fn(build, call):
    return dict(data=build, call=call)


def _metric_data(rng, k):
    X, _ = _xy(rng, k, n=(24, 18), m=(4, 3))
    Y = np.tanh(X @ rng.normal(size=(X.shape[1], 3))) + 0.1 * rng.normal(size=(len(X), 3))
    n = len(X)
    return {"X": X, "Y": Y, "tr": np.arange(0, 2 * n // 3), "te": np.arange(n // 2, n)}


def _M():
    from skmatter import metrics

    return metrics


def _U():
    from skmatter import utils

    return utils


SCENARIOS = {
    # --- selectors
    "feature.FPS": _selector("feature", "FPS", False, with_y=False),
    "feature.FPS(list init)": _selector("feature", "FPS", False, extra="list_init", with_y=False),
    "feature.FPS(array init)": _selector("feature", "FPS", False, extra="array_init", with_y=False),
    "feature.PCovFPS": _selector("feature", "PCovFPS", True),
    "feature.CUR": _selector("feature", "CUR", False),
    "feature.CUR(n_to_select=None)": _selector("feature", "CUR", False, n_form=None),
    "feature.FPS(n_to_select=0.4)": _selector("feature", "FPS", False, with_y=False, n_form=0.4),
    "sample.FPS(n_to_select=None)": _selector("sample", "FPS", False, with_y=False, n_form=None),
    "feature.CUR(threshold)": _selector("feature", "CUR", False, extra="threshold"),
    "sample.PCovCUR(threshold)": _selector("sample", "PCovCUR", True, extra="threshold"),
    "feature.PCovCUR": _selector("feature", "PCovCUR", True),
    "sample.FPS(y)": _selector("sample", "FPS", False),
    "sample.FPS(array init)": _selector("sample", "FPS", False, extra="array_init", with_y=False),
    "sample.PCovFPS": _selector("sample", "PCovFPS", True),
    "sample.CUR(y)": _selector("sample", "CUR", False),
    "sample.PCovCUR": _selector("sample", "PCovCUR", True),
    "sample.VoronoiFPS(y)": _selector("sample", "VoronoiFPS", False),
    "sample.VoronoiFPS(default switching point)": _selector("sample", "VoronoiFPS_default", False, with_y=False),
    "sample.DirectionalConvexHull": _dch(),
    "sample.DirectionalConvexHull(index array counting from the end)": _dch("array"),
    # --- decomposition
    "PCovR(feature)": _pcovr("feature", "none"),
    "PCovR(sample, Ridge)": _pcovr("sample", "ridge"),
    "PCovR(sample, precomputed W)": _pcovr("sample", "precomputed"),
    "PCovR(feature, precomputed W)": _pcovr("feature", "precomputed"),
    "PCovR(sample, arpack, random_state)": _pcovr("sample", "none", solver="arpack"),
    "PCovR(feature, randomized, random_state)": _pcovr("feature", "ridge", solver="randomized"),
    "KernelPCovR(rbf, center)": _kpcovr("rbf"),
    "KernelPCovR(rbf, KernelRidge)": _kpcovr("rbf+krr"),
    "KernelPCovR(precomputed)": _kpcovr("precomputed"),
    "KernelPCovR(precomputed, center)": _kpcovr("precomputed", center=True),
    # --- preprocessing
    "StandardFlexibleScaler(copy=False)": _sfs(False, False),
    "StandardFlexibleScaler(copy=True, column_wise)": _sfs(True, True),
    "KernelNormalizer": _kn(),
    "KernelNormalizer(unweighted)": _kn(False),
    "SparseKernelCenterer": _skc(),
    # --- linear models
    "Ridge2FoldCV": _r2f("none"),
    "Ridge2FoldCV(cv pairs)": _r2f("pairs"),
    "Ridge2FoldCV(random_state=None, seeded global generator)": _r2f("global_seed"),
    "OrthogonalRegression(projector)": _orth(True),
    "OrthogonalRegression(padded)": _orth(False),
    # --- neighbors / clustering
    "SparseKDE": _skde(False, False),
    "SparseKDE(weights)": _skde(False, True),
    "SparseKDE(normalised weights)": _skde(False, True, normalised=True),
    "SparseKDE(cell, fspread)": _skde(True, True, loc="fspread"),
    "QuickShift(cutoff, scale=2)": _quickshift("cutoff", 2.0),
    "QuickShift(cutoff, scale=1)": _quickshift("cutoff", 1.0),
    "QuickShift(gabriel, cell)": _quickshift("gabriel_cell", 1.0),
    # --- functions
    "pointwise_global_reconstruction_error": _fn(_metric_data, lambda a: {"v": _M().pointwise_global_reconstruction_error(a["X"], a["Y"], train_idx=a["tr"], test_idx=a["te"])}),
    "global_reconstruction_error": _fn(_metric_data, lambda a: {"v": _M().global_reconstruction_error(a["X"], a["Y"])}),
    "pointwise_global_reconstruction_distortion": _fn(_metric_data, lambda a: {"v": _M().pointwise_global_reconstruction_distortion(a["X"], a["Y"], train_idx=a["tr"], test_idx=a["te"])}),
    "global_reconstruction_distortion": _fn(_metric_data, lambda a: {"v": _M().global_reconstruction_distortion(a["X"], a["Y"])}),
    "pointwise_local_reconstruction_error": _fn(_metric_data, lambda a: {"v": _M().pointwise_local_reconstruction_error(a["X"], a["Y"], 5, train_idx=a["tr"], test_idx=a["te"])}),
    "local_reconstruction_error": _fn(_metric_data, lambda a: {"v": _M().local_reconstruction_error(a["X"], a["Y"], 5)}),
    "check_global_reconstruction_measures_input": _fn(_metric_data, lambda a: {"v": list(_M().check_global_reconstruction_measures_input(a["X"], a["Y"], a["tr"], None, None, None)[:2])}),
    "check_local_reconstruction_measures_input": _fn(_metric_data, lambda a: {"v": list(_M().check_local_reconstruction_measures_input(a["X"], a["Y"], 4, None, a["te"], None, None)[:2])}),
    "local_prediction_rigidity": _fn(lambda rng, k: {"tr": [rng.normal(size=(3, 4)), rng.normal(size=(5, 4))], "te": [rng.normal(size=(2, 4))]}, lambda a: {"v": _M().local_prediction_rigidity(a["tr"], a["te"], 0.1)[0]}),
    "componentwise_prediction_rigidity": _fn(lambda rng, k: {"tr": [rng.normal(size=(3, 4)), rng.normal(size=(5, 4))], "te": [rng.normal(size=(2, 4))], "cd": np.array([1, 3])}, lambda a: {"v": list(_M().componentwise_prediction_rigidity(a["tr"], a["te"], 0.1, a["cd"])[:2])}),
    "periodic_pairwise_euclidean_distances": _fn(lambda rng, k: {"X": rng.normal(size=(6, 3)) * 4, "Y": rng.normal(size=(4, 3)) * 4, "cell": np.array([2.0, 3.0, 4.0])}, lambda a: {"v": _M().periodic_pairwise_euclidean_distances(a["X"], a["Y"], cell_length=a["cell"]), "sq": _M().periodic_pairwise_euclidean_distances(a["X"], cell_length=a["cell"], squared=True)}),
    "pairwise_mahalanobis_distances": _fn(lambda rng, k: {"X": rng.normal(size=(6, 2)) * 4, "Y": rng.normal(size=(4, 2)) * 4, "P": np.array([[[2.0, 0.3], [0.3, 1.0]], [[1.0, 0.0], [0.0, 3.0]]]), "cell": np.array([2.0, 3.0])}, lambda a: {"v": _M().pairwise_mahalanobis_distances(a["X"], a["Y"], a["P"], a["cell"]), "sq": _M().pairwise_mahalanobis_distances(a["X"], a["Y"], a["P"][0], None, squared=True)}),
    "X_orthogonalizer(copy=True)": _fn(lambda rng, k: {"x1": rng.normal(size=(8, 5)), "x2": rng.normal(size=(8, 2))}, lambda a: {"a": _U().X_orthogonalizer(a["x1"], c=1, copy=True), "b": _U().X_orthogonalizer(a["x1"], x2=a["x2"], copy=True)}),
    "Y_feature_orthogonalizer(copy=True)": _fn(lambda rng, k: {"y": rng.normal(size=(8, 2)), "X": rng.normal(size=(8, 3))}, lambda a: {"v": _U().Y_feature_orthogonalizer(a["y"], a["X"], copy=True)}),
    "Y_sample_orthogonalizer(copy=True)": _fn(lambda rng, k: {"y": rng.normal(size=(8, 2)), "X": rng.normal(size=(8, 3)), "yr": rng.normal(size=(4, 2)), "Xr": rng.normal(size=(4, 3))}, lambda a: {"v": _U().Y_sample_orthogonalizer(a["y"], a["X"], a["yr"], a["Xr"], copy=True)}),
    "pcovr_covariance": _fn(lambda rng, k: {"X": rng.normal(size=(9, 4)), "Y": rng.normal(size=(9, 2))}, lambda a: {"v": _U().pcovr_covariance(0.5, a["X"], a["Y"]), "w": list(_U().pcovr_covariance(0.3, a["X"], a["Y"], return_isqrt=True))}),
    "pcovr_kernel": _fn(lambda rng, k: {"X": rng.normal(size=(9, 4)), "Y": rng.normal(size=(9, 2))}, lambda a: {"v": _U().pcovr_kernel(0.5, a["X"], a["Y"]), "k": _U().pcovr_kernel(0.5, a["X"] @ a["X"].T, a["Y"], kernel="precomputed")}),
    "train_test_split": _fn(lambda rng, k: {"X": rng.normal(size=(12, 3)), "y": rng.normal(size=12)}, lambda a: {"v": list(__import__("skmatter.model_selection", fromlist=["train_test_split"]).train_test_split(a["X"], a["y"], train_size=0.6, test_size=0.6, train_test_overlap=True, random_state=1)), "w": list(__import__("skmatter.model_selection", fromlist=["train_test_split"]).train_test_split(a["X"], a["y"], test_size=0.25, random_state=1))}),
    "effdim, oas": _fn(lambda rng, k: {"C": gens.spd(rng, 3, 50.0)}, lambda a: {"e": _U().effdim(a["C"]), "o": _U().oas(a["C"], 7.0, 3)}),
}
NAMES = list(SCENARIOS)
LAYOUTS = [(lay, ro, dt) for lay in ("C", "F", "strided") for ro in (False, True) for dt in ("float64", "float64", "integer-valued", "float32")]

CASES = {"quick": len(NAMES) * 48, "thorough": len(NAMES) * 600}
FLOOR = {"quick": len(NAMES) * 40, "thorough": len(NAMES) * 500}
FLOOR_COUNTERS = {
    "quick": {"purity_calls": 2000, "write_protected_calls": 900, "refits_compared": 1200, "param_guards": 1500, "repeat_pairs": 1500, "arrays_snapshotted": 6000, "guarded_public_calls": 20000, "rejected_calls_in_the_history": 600},
    "thorough": {"purity_calls": 25000, "write_protected_calls": 11000, "refits_compared": 15000, "param_guards": 19000, "repeat_pairs": 19000, "arrays_snapshotted": 75000, "guarded_public_calls": 250000, "rejected_calls_in_the_history": 8000},
}
RULE = (
    f"case = one of {len(NAMES)} registry entries (every public estimator incl. constructor arguments, the 8 reconstruction "
    "functions, 2 rigidities, 2 distances, 3 orthogonalizers with copy=True, pcovr_covariance/kernel, effdim/oas; round-robin) "
    "x argument layout {C, Fortran, strided view} x {writable, write-protected} x dtype {float64, integer-valued, float32}; per "
    "case: purity of the whole call chain, hyper-parameters across fit, fit-returns-self / fit_transform, two-step histories "
    "(A then B of another size, smaller then larger, other data of the same shape; with-y then without-y), repetition. non-trivial = write-protected or non-C layout or a refit "
    "history judged; distinct by entry+layout+data hash."
)
RULE = RULE + " " + 'Every case repeats the call chain on memoryview / __array__ holders of its 2-D float arguments (where the entry point accepts them) and compares the memory behind them byte by byte.'
ASSUMPTIONS = [
    "explicit opt-ins to in-place work (KernelNormalizer.transform(copy=False), orthogonalizers with copy=False) are outside the statement",
    "user-supplied estimator objects (regressor, linear_estimator, scaler) being fitted is not an array mutation and is not judged",
    "float32 inputs are judged for purity only; a documented rejection (TypeError/ValueError that is not a read-only fault) of a dtype is a skip",
    "state equality: arrays allclose(rtol 1e-9, atol 1e-12 x scale), integer arrays exact, sub-estimators by type",
]


def gen(rng, tier, index):
    name = NAMES[index % len(NAMES)]
    lay = LAYOUTS[(index // len(NAMES)) % len(LAYOUTS)]
    return {"scenario": name, "layout": lay[0], "readonly": lay[1], "dtype": lay[2], "seed": int(rng.integers(1 << 30))}


# ============================================================================ helpers


def _variant(a, layout, readonly, dtype):
    def conv(x):
        y = x
        if np.issubdtype(x.dtype, np.floating):
            if dtype == "float32":
                y = x.astype(np.float32)
            elif dtype == "integer-valued":
                y = np.round(x * 1000)  # integer-valued floats, fine enough not to create duplicate points
                if np.all(y == y.flat[0]):
                    y = x.copy()
        return rt.layout_variant(y, layout, readonly)

    return rt.map_arrays(a, conv)


def _eq(a, b, path=""):
    """None if equal, else a description of the first difference."""
    if isinstance(a, np.ndarray) or isinstance(b, np.ndarray):
        a, b = np.asarray(a), np.asarray(b)
        if a.shape != b.shape:
            return f"{path}: shape {a.shape} vs {b.shape}"
        if a.dtype.kind in "iub" or b.dtype.kind in "iub":
            return None if np.array_equal(a, b) else f"{path}: integer arrays differ"
        if a.dtype.kind == "O":
            return None
        sc = max(float(np.nanmax(np.abs(a), initial=0.0)), 1.0)
        ok = np.allclose(a, b, rtol=1e-9, atol=1e-12 * sc, equal_nan=True)
        return None if ok else f"{path}: max diff {float(np.nanmax(np.abs(a - b))):.3g}"
    if isinstance(a, dict) and isinstance(b, dict):
        if set(a) != set(b):
            return f"{path}: keys {sorted(set(a) ^ set(b))}"
        for k in a:
            d = _eq(a[k], b[k], f"{path}.{k}")
            if d:
                return d
        return None
    if isinstance(a, (list, tuple)) and isinstance(b, (list, tuple)):
        if len(a) != len(b):
            return f"{path}: length {len(a)} vs {len(b)}"
        for i, (x, y) in enumerate(zip(a, b)):
            d = _eq(x, y, f"{path}[{i}]")
            if d:
                return d
        return None
    if isinstance(a, (int, float, np.number)) and isinstance(b, (int, float, np.number)):
        return None if (a == b or abs(a - b) <= 1e-9 * max(1.0, abs(a)) or (a != a and b != b)) else f"{path}: {a} vs {b}"
    if hasattr(a, "get_params") or callable(a) or hasattr(a, "__dict__"):
        return None if type(a) is type(b) else f"{path}: type {type(a).__name__} vs {type(b).__name__}"
    return None if a == b else f"{path}: {a!r} vs {b!r}"


def _hyper(est):
    """Pre-existing public attributes (constructor hyper-parameters)."""
    out = {}
    for k, v in vars(est).items():
        if k.startswith("_") or k.endswith("_") or callable(v):
            continue
        out[k] = copy.deepcopy(v) if not hasattr(v, "get_params") else type(v)
    return out


class _ArrayHolder:
    """Not an ndarray, but hands out its own buffer through the array protocol (as data frames and tensors do)."""

    def __init__(self, a):
        self._a = a
        self.shape = a.shape

    def __array__(self, dtype=None, copy=None):
        return self._a if dtype is None else self._a.astype(dtype, copy=False)

    def __len__(self):
        return len(self._a)


def _run_all(sc, a):
    """Full call chain of a scenario on the caller's arguments a."""
    if "call" in sc:
        return None, sc["call"](a)
    e = sc["est"](a)
    sc["fit"](e, a)
    return e, sc["use"](e, a)


# ============================================================================ run


def run(case, j):
    name = case["scenario"]
    sc = SCENARIOS[name]
    lay, ro, dt = case["layout"], case["readonly"], case["dtype"]
    j.tag(name, f"layout:{lay}", "write-protected" if ro else "writable", f"dtype:{dt}")
    rng = np.random.default_rng(case["seed"])
    A = sc["data"](rng, 0)
    B = sc["data"](rng, 1)
    A2 = sc["data"](rng, 0)  # other data of the same shape as A

    # ---- (a) purity of the whole call chain on the chosen argument variant
    Av = _variant(A, lay, ro, dt)
    before = rt.snapshot(Av)
    j.note("arrays_snapshotted", len(before))
    guard = rt.PurityGuard()
    try:
        with guard:  # every public call of the chain is guarded, so intermediates handed on by the caller are covered too
            _run_all(sc, Av)
        j.note("purity_calls")
        j.note("guarded_public_calls", guard.calls)
        j.ok("no public call of the chain modified one of its own arguments (incl. intermediates the caller hands on)", not guard.violations, guard.violations[:3])
        if ro:
            j.note("write_protected_calls")
    except Exception as e:
        if rt.is_readonly_fault(e):
            import traceback

            tb = traceback.extract_tb(e.__traceback__)
            where = [f"{f.filename.split('/')[-1]}:{f.lineno}:{f.name}" for f in tb][-3:]
            j.fail("no in-place write to caller memory (write-protected buffer faulted)", {"where": where, "msg": str(e)[:120], "layout": lay, "dtype": dt}, _known_purity(name, where))
            j.note("purity_calls")
            j.note("write_protected_calls")
        elif dt != "float64" and isinstance(e, (TypeError, ValueError)):
            raise Skip(f"dtype-rejected:{type(e).__name__}")
        else:
            raise
    changed = rt.diff_snapshot(before, Av)
    j.ok("caller arrays byte-identical after the call chain", not changed, {"modified": changed, "layout": lay, "readonly": ro, "dtype": dt}, _known_purity(name, None) if changed else None)

    # ---- (a') array-likes that expose memory without being ndarrays (a memoryview, an object with __array__ such as
    #      a data frame or a tensor): validation wraps them without copying, so "the caller's data" is their memory
    kinds_ = ("memoryview", "array_protocol")
    hk = kinds_[case["seed"] % 2]
    under = []

    def hold(x):
        if isinstance(x, np.ndarray) and x.ndim == 2 and x.dtype == np.float64:
            b = np.array(x, order="C", copy=True)
            under.append((b, b.tobytes()))
            return memoryview(b) if hk == "memoryview" else _ArrayHolder(b)
        return x

    Ah = rt.map_arrays(A, hold)
    if under:
        try:
            with warnings.catch_warnings():
                warnings.simplefilter("ignore")
                _run_all(sc, Ah)
        except Exception:  # noqa: BLE001 - the entry point does not take such array-likes (documented for arrays): not a verdict
            j.note("array_like_holders_not_accepted_by_the_entry_point")
        else:
            bad = [i for i, (b, raw) in enumerate(under) if b.tobytes() != raw]
            j.ok("memory behind array-like arguments (memoryview / __array__ holder) byte-identical after the call chain", not bad, {"holder": hk, "modified_arguments": bad})
            j.note("call_chains_on_array_like_holders")

    if "call" in sc:
        # ---- (d) repetition
        r1, r2 = sc["call"](A), sc["call"](A)
        d = _eq(r1, r2, "result")
        j.ok("repeating the call gives numerically equal results", d is None, d)
        j.note("repeat_pairs")
        j.nontrivial = ro or lay != "C"
        j.sample = {"entry": name, "layout": lay, "readonly": ro, "dtype": dt, "arguments": brief({k: v for k, v in A.items()}), "arrays_snapshotted": len(before)}
        return

    # ---- (b) hyper-parameters across fit, (e) fit returns self
    e = sc["est"](A)
    h0 = _hyper(e)
    p0 = e.get_params(deep=False) if hasattr(e, "get_params") else {}
    p0 = {k: (copy.deepcopy(v) if not hasattr(v, "get_params") else type(v)) for k, v in p0.items()}
    ret = sc["fit"](e, A)
    j.ok("fit returns the estimator itself", ret is e, type(ret).__name__)
    h1 = _hyper(e)
    diffs = [k for k in h0 if _eq(h0[k], h1.get(k), k)]
    p1 = e.get_params(deep=False) if hasattr(e, "get_params") else {}
    diffs += [k for k in p0 if k not in diffs and _eq(p0[k], (p1[k] if not hasattr(p1[k], "get_params") else type(p1[k])), k)]
    k3 = "K3" if (type(e).__name__ == "VoronoiFPS" and diffs == ["full_fraction"] and h0.get("full_fraction") is None) else None
    j.ok("fit leaves every constructor hyper-parameter unchanged", not diffs, {"changed": diffs, "before": brief({k: h0.get(k) for k in diffs}), "after": brief({k: h1.get(k) for k in diffs})}, k3)
    j.note("param_guards")
    out1 = sc["use"](e, A)

    # ---- (e) fit_transform == fit + transform
    if sc.get("fit_transform"):
        e_ft, e_ref = sc["est"](A), sc["est"](A)
        ft = sc["fit_transform"](e_ft, A)
        if ft is not None:
            ref = sc["ft_ref"](e_ref, A) if "SFS" in name or "Standard" in name or "Kernel" in name or "Sparse" in name else None
            if ref is None:
                sc["fit"](e_ref, A)
                ref = sc["ft_ref"](e_ref, A)
            d = _eq(np.asarray(ft), np.asarray(ref), "fit_transform")
            j.ok("fit_transform == fit followed by transform", d is None, d)

    # ---- (d) repetition with the same inputs and random_state
    e2 = sc["est"](A)
    sc["fit"](e2, A)
    d = _eq(out1, sc["use"](e2, A), "outputs") or _eq(rt.public_state(e), rt.public_state(e2), "state")
    j.ok("repeating fit with the same inputs and random_state gives the same selections and equal arrays", d is None, d, "K3" if (k3 and d and str(d).startswith("state.new_dist_")) else None)
    j.note("repeat_pairs")

    # ---- (c) histories: A then B (other size); with y then without y
    def history(first, second, label):
        eh = sc["est"](second if not sc.get("same_ctor_data") else second)
        if sc.get("same_ctor_data"):
            # constructor owns the data (SparseKDE): the history is fit(G_A') then fit(G_B) on the same object
            alt = dict(second, G=second["D"][:5].copy())
            first_fit = lambda: sc["fit"](eh, alt)  # noqa: E731
        else:
            eh = sc["est"](first)
            first_fit = lambda: sc["fit"](eh, first)  # noqa: E731
        first_fit()
        try:
            # use the estimator between the fits (populates lazily cached quantities)
            sc["use"](eh, alt if sc.get("same_ctor_data") else first)
        except Exception:
            pass
        for k_, v_ in _hyper(sc["est"](second)).items():
            # the caller re-configures size-dependent hyper-parameters for the new data, as a user would
            if k_ in ("dist_cutoff_sq", "cv"):
                setattr(eh, k_, copy.deepcopy(v_))
        known = None
        try:
            sc["fit"](eh, second)
        except Exception as ex:
            if k3 and isinstance(ex, ValueError) and "Switching point" in str(ex):
                known = "K3"
            j.fail(f"refit after a previous fit works ({label})", {"type": type(ex).__name__, "msg": str(ex)[:200]}, known)
            return
        fresh = sc["est"](second)
        sc["fit"](fresh, second)
        s1, s2 = rt.public_state(eh), rt.public_state(fresh)
        keys = sorted(set(s1) ^ set(s2))
        j.ok(f"refitted estimator has exactly the fitted attributes of a fresh one ({label})", not keys, {"stale_or_missing": keys})
        dd = _eq({k: s1[k] for k in s1 if k in s2}, {k: s2[k] for k in s1 if k in s2}, "state")
        j.ok(f"refitted estimator equals a fresh estimator fitted on the new data ({label})", dd is None, dd, "K3" if (k3 and dd and str(dd).startswith("state.new_dist_")) else None)
        d2 = _eq(sc["use"](eh, second), sc["use"](fresh, second), "outputs")
        j.ok(f"refitted estimator behaves like a fresh one ({label})", d2 is None, d2)
        j.note("refits_compared")

    if sc.get("reject"):
        er = sc["est"](B)
        hr0 = _hyper(er)
        try:
            sc["reject"](er, B)
            j.note("calls_expected_to_be_rejected_that_were_accepted")
        except Exception:  # noqa: BLE001
            j.note("rejected_calls_in_the_history")
            hr1 = _hyper(er)
            dr = [k for k in hr0 if _eq(hr0[k], hr1.get(k), k)]
            j.ok("a call that is refused leaves every constructor hyper-parameter unchanged", not dr, {"changed": dr, "before": brief({k: hr0.get(k) for k in dr}), "after": brief({k: hr1.get(k) for k in dr})})
            sc["fit"](er, A)
            fr = sc["est"](A)
            sc["fit"](fr, A)
            dd = _eq(rt.public_state(er), rt.public_state(fr), "state") or _eq(sc["use"](er, A), sc["use"](fr, A), "outputs")
            j.ok("an estimator that was refused a call, then fitted, equals a fresh estimator fitted on the same data", dd is None, dd, "K3" if (k3 and dd and str(dd).startswith("state.new_dist_")) else None)
    if type(e).__name__ == "QuickShift" and "cuts" in A:
        pass  # per-point cut-offs are constructor data sized to the point set: a refit on another size needs a new object
    else:
        history(A, B, "A then B of another size")
        history(B, A, "smaller then larger")
    if not sc.get("same_ctor_data"):
        history(A2, A, "other data of the same shape")
    if sc.get("drop_y"):
        Bn = {k: v for k, v in B.items() if k != "y"}
        history(A, Bn, "with y then without y")
    j.nontrivial = True
    j.sample = {"entry": name, "layout": lay, "readonly": ro, "dtype": dt, "arguments": brief(A), "arrays_snapshotted": len(before), "hyper_parameters_watched": sorted(h0)[:12], "fitted_attributes": sorted(rt.public_state(e))[:12]}


def _known_purity(name, where):
    return None


def extra_run(tier):
    """Thorough tier: the repository's whole test-suite with the purity guard around every public
    constructor / method / metric function it calls."""
    from .. import suite

    r = suite.run_suite(["purity"])
    r["contracts"] = ["purity"]
    if not r["inconclusive"] and r["counters"].get("suite:purity_call", 0) < 10000:
        r["inconclusive"].append("fewer than 10000 calls of the repository's tests were seen by the purity guard")
    return r
