"""C10 - Ridge2FoldCV equals explicit two-fold cross-validated regularised least squares.

Monitor: M2 hook on Ridge2FoldCV._2fold_cv captures the fold indices actually used;
public cv_values_, alpha_, best_score_, coef_, predict.
Oracle: per alpha an explicit fit on each fold (Tikhonov through the augmented
least-squares system / cut-off through a truncated pseudo-inverse) scored on the other
fold by calling sklearn.metrics directly on (truth, prediction).
"""

from __future__ import annotations

import numpy as np

from .. import forms, gens, rt
from ..common import Skip, brief

ID = "C10"
CASES = {"quick": 2400, "thorough": 30000}
FLOOR = {"quick": 1800, "thorough": 22000}
FLOOR_COUNTERS = {
    "quick": {"directions_more_than_7_decades_below_the_largest": 160, "alphas_judged": 9000, "fold_captures": 1800, "rank_deficient_fits": 350, "r2_fits": 400, "explicit_cv_fits": 400, "n_jobs_2_fits": 10, "one_dimensional_targets": 200, "estimators_with_a_past": 700, "integer_typed_features": 150, "non_default_containers": 1000, "configured_by:set_params": 200, "configured_by:setattr": 200, "configured_by:clone": 200, "cutoffs_exactly_on_a_singular_value": 80, "stateful_random_generators": 300, "rejected_calls_in_the_history": 400, "folds_from_the_seeded_global_generator": 150},
    "thorough": {"directions_more_than_7_decades_below_the_largest": 2000, "alphas_judged": 110000, "fold_captures": 22000, "rank_deficient_fits": 4000, "r2_fits": 5000, "explicit_cv_fits": 5000, "n_jobs_2_fits": 100, "one_dimensional_targets": 2500, "estimators_with_a_past": 9000, "integer_typed_features": 2000, "non_default_containers": 12000, "configured_by:set_params": 2500, "configured_by:setattr": 2500, "configured_by:clone": 2500, "cutoffs_exactly_on_a_singular_value": 1000, "stateful_random_generators": 4000, "rejected_calls_in_the_history": 5000, "folds_from_the_seeded_global_generator": 2000},
}
RULE = (
    "case = X (tall / wide / exactly rank-deficient through duplicated or combined columns / column-scaled over 4 decades / badly scaled: 1-2 decisive columns 7 to 8.7 decades below the others; largest "
    "singular value 1e-2..1e3), 1-3 noisy targets, alpha grid (absolute 1e-12..1e3 or relative in [0,1) incl. 0), method "
    "tikhonov|cutoff, scorer neg-MSE|neg-RMSE|r2, cv None(+shuffle,+seed) | explicit (train,test) pairs incl. unequal sizes | "
    "KFold objects, n_jobs None|2; 40% of the estimators have a past (fitted on other data with every hyper-parameter different, then set_params). non-trivial = >= 3 alphas judged with distinct oracle scores; distinct by data+config hash."
)
ASSUMPTIONS = [
    "singular values of X and of each fold are either >= 1e-6 x sigma_1 or rounding noise (generator), so the numerical rank is unambiguous",
    "'relative' alphas are multiplied by the largest singular value over the two folds (the code's documented convention), also for the final fit",
    "score tolerance 1e-6 x (1 + |score|); alpha_ accepted when its oracle score is within that tolerance of the best",
    "sklearn.metrics and numpy lstsq/svd are trusted",
]
RULE = RULE + " " + forms.RULE_SUFFIX
SCORERS = ("neg_mean_squared_error", "neg_root_mean_squared_error", "r2", None)


def gen(rng, tier, index):
    hi = 30 if tier == "quick" else 60
    shape = gens.pick(rng, ("tall", "tall", "wide", "deficient", "deficient", "scaled", "badly_scaled"))
    if index % 25 == 3:
        return _gen_indicator(rng)
    if shape == "wide":
        n, m = int(rng.integers(8, 16)), int(rng.integers(10, hi))
    else:
        n, m = int(rng.integers(10, hi)), int(rng.integers(2, 9))
    X = rng.normal(size=(n, m))
    if shape == "deficient":
        r = int(rng.integers(1, m)) if m > 1 else 1
        B = rng.normal(size=(n, r))
        mix = rng.integers(-2, 3, size=(r, m)).astype(float)
        mix[:, :r] = np.eye(r)  # exact duplicates / integer combinations
        X = B @ mix
    if shape == "scaled":
        X = X * 10.0 ** rng.uniform(-2, 2, size=m)
    colscale = np.ones(m)
    if shape == "badly_scaled":
        # one or two features in tiny units (7 to 8.7 decades below the others) that matter for the target: far above
        # the numerical rank (max(n, m) * eps ~ 1e-14), so the documented solution keeps their directions
        tiny = rng.choice(m, size=int(min(m - 1, rng.integers(1, 3))), replace=False)
        colscale[tiny] = 10.0 ** -rng.uniform(7.0, 8.7, size=len(tiny))
        X = X * colscale
    s1 = np.linalg.svd(X, compute_uv=False)[0]
    X = X / s1 * float(10.0 ** rng.uniform(-2, 3))
    xint = None
    if rng.random() < 0.15 and shape != "badly_scaled":  # whole-number features (counts), handed over with an integer dtype
        X = np.round(X / float(np.abs(X).max()) * 60.0)
        if np.linalg.matrix_rank(X) == min(X.shape) or shape == "deficient":
            xint = gens.pick(rng, ("int64", "int32"))
        X = X * 1.0
    p = int(gens.pick(rng, (1, 2, 3)))
    W = rng.normal(size=(m, p)) / colscale[:, None]
    Y = X @ W
    Y = Y + float(gens.pick(rng, (0.01, 0.1, 0.5))) * max(float(np.abs(Y).std()), 1e-12) * rng.normal(size=(n, p))
    atype = gens.pick(rng, ("absolute", "relative"))
    na = int(rng.integers(2, 8))
    if atype == "absolute":
        alphas = np.sort(10.0 ** rng.uniform(-12, 3, size=na))
        if rng.random() < (0.3 if shape != "badly_scaled" else 0.8):
            alphas[0] = 1e-30
    else:
        alphas = np.sort(10.0 ** rng.uniform(-9, -0.01, size=na))
        if rng.random() < (0.4 if shape != "badly_scaled" else 0.8):
            alphas[0] = 0.0
    if p == 1 and rng.random() < 0.5:
        Y = Y[:, 0].copy()  # a single target given as a 1-D array
    cvk = gens.pick(rng, ("none", "default", "shuffle", "pairs", "pairs_unequal", "kfold", "int", "shuffle_rs", "kfold_rs", "global_seed"))
    cv = {"kind": cvk}
    if cvk in ("shuffle", "shuffle_rs", "kfold_rs", "global_seed"):
        cv["seed"] = int(rng.integers(1000))
        cv["n_splits"] = 2
    elif cvk in ("pairs", "pairs_unequal"):
        perm = rng.permutation(n)
        cut = n // 2 if cvk == "pairs" else int(rng.integers(max(3, n // 4), n - 2))
        a, b = perm[:cut], perm[cut:]
        if cvk == "pairs_unequal" and rng.random() < 0.5:
            b = b[: max(2, len(b) - 2)]  # folds need not cover the data
        cv["pairs"] = [[np.sort(a), np.sort(b)], [np.sort(b), np.sort(a)]]
    elif cvk == "int":
        cv["n_splits"] = int(gens.pick(rng, (2, 3, 5)))
    elif cvk == "kfold":
        cv["n_splits"] = int(gens.pick(rng, (2, 3)))
        cv["seed"] = int(rng.integers(1000))
    return {
        "X": X,
        "Y": Y,
        "shape": shape,
        "alphas": alphas,
        "alpha_type": atype,
        "method": gens.pick(rng, ("tikhonov", "cutoff")),
        "scoring": gens.pick(rng, SCORERS),
        "cv": cv,
        "n_jobs": 2 if rng.random() < 0.012 else None,
        "xint": xint,
        "how": gens.pick(rng, forms.CONFIGURE),
        "xform": gens.pick(rng, forms.PRESENT),
        "yform": gens.pick(rng, forms.PRESENT),
        "carry": gens.pick(rng, forms.CARRY),
        "aborted_fit": int(rng.integers(1, 6)) if rng.random() < 0.3 else 0,
        "past": bool(rng.random() < 0.4),  # the estimator object has been fitted before, with another configuration
        "pseed": int(rng.integers(1 << 30)),
        "Z": rng.normal(size=(5, m)) * float(np.abs(X).std()),
    }


def _gen_indicator(rng):
    """Indicator (one-hot / count) design: one entry +-1 per row, so the columns are orthogonal and the singular values of
    each fold are sqrt(count) - chosen as perfect squares, i.e. the integers 1, 2, 3 - and a round alpha grid lands
    exactly ON singular values: the documented cut-off keeps a direction only if its singular value is LARGER."""
    m = int(rng.integers(2, 6))
    c1, c2 = rng.choice([1, 4, 9], size=m), rng.choice([1, 4, 9], size=m)
    rows, fold = [], []
    for f_, cnt in ((0, c1), (1, c2)):
        for j_ in range(m):
            for _ in range(int(cnt[j_])):
                r_ = np.zeros(m)
                r_[j_] = float(rng.choice([-1.0, 1.0]))
                rows.append(r_)
                fold.append(f_)
    perm = rng.permutation(len(rows))
    X = np.array(rows)[perm]
    fold = np.array(fold)[perm]
    i1, i2 = np.flatnonzero(fold == 0), np.flatnonzero(fold == 1)
    p = int(gens.pick(rng, (1, 2)))
    Y = X @ rng.normal(size=(m, p)) + rng.normal(size=(len(X), p))
    grid = np.array(sorted(set(float(v) for v in rng.choice([0.5, 1.0, 1.5, 2.0, 2.5, 3.0, 3.5], size=int(rng.integers(2, 6)), replace=False))))
    return {
        "X": X, "Y": Y, "shape": "indicator", "alphas": grid, "alpha_type": "absolute",
        "method": gens.pick(rng, ("cutoff", "cutoff", "cutoff", "tikhonov")), "scoring": gens.pick(rng, SCORERS),
        "cv": {"kind": "pairs", "pairs": [[i1, i2], [i2, i1]]}, "n_jobs": None, "xint": None, "how": "ctor", "xform": "C", "yform": "C",
        "carry": "same", "past": False, "pseed": 0, "Z": rng.normal(size=(5, m)),
    }


def _cv_object(cv, n):
    from sklearn.model_selection import KFold

    k = cv["kind"]
    if k == "none":
        return None, {"shuffle": False}, KFold(n_splits=2, shuffle=False)
    if k == "default":  # shuffle=True, random_state=None: the folds are random, the captured ones are used
        return None, {}, None
    if k == "global_seed":  # shuffle=True, random_state=None, np.random.seed(s) by the caller: the folds follow from s
        return None, {}, KFold(n_splits=2, shuffle=True, random_state=np.random.RandomState(cv["seed"]))
    if k == "shuffle":
        return None, {"shuffle": True, "random_state": cv["seed"]}, KFold(n_splits=2, shuffle=True, random_state=cv["seed"])
    if k == "shuffle_rs":  # a stateful generator: the folds are the FIRST split drawn from its state at fit time
        return None, {"shuffle": True, "random_state": np.random.RandomState(cv["seed"])}, KFold(n_splits=2, shuffle=True, random_state=np.random.RandomState(cv["seed"]))
    if k == "kfold_rs":
        return KFold(n_splits=2, shuffle=True, random_state=np.random.RandomState(cv["seed"])), {}, KFold(n_splits=2, shuffle=True, random_state=np.random.RandomState(cv["seed"]))
    if k in ("pairs", "pairs_unequal"):
        pairs = [(np.asarray(a), np.asarray(b)) for a, b in cv["pairs"]]
        return pairs, {}, pairs
    if k == "int":  # an integer is turned into an unshuffled KFold by sklearn's check_cv
        return cv["n_splits"], {}, KFold(n_splits=cv["n_splits"])
    kf = KFold(n_splits=cv["n_splits"], shuffle=True, random_state=cv["seed"])
    return kf, {}, KFold(n_splits=cv["n_splits"], shuffle=True, random_state=cv["seed"])


def _num_rank_parts(X):
    U, s, Vt = np.linalg.svd(X, full_matrices=False)
    keep = s > 1e-11 * s[0]
    return U[:, keep], s[keep], Vt[keep], s


def _solve(X, Y, alpha, method):
    """Regularised least squares on (X, Y) restricted to the numerical range of X."""
    U, s, Vt, s_all = _num_rank_parts(X)
    if method == "cutoff":
        k = s > alpha
        return Vt[k].T @ ((U[:, k].T @ Y) / s[k][:, None])
    # Tikhonov through the augmented system, solved within the numerical range
    Xr = U * s  # coordinates in the range basis: X = (U s) Vt
    A = np.vstack([Xr, np.sqrt(alpha) * np.eye(len(s))]) if alpha > 0 else Xr
    B = np.vstack([Y, np.zeros((len(s), Y.shape[1]))]) if alpha > 0 else Y
    c = np.linalg.lstsq(A, B, rcond=None)[0]
    return Vt.T @ c


def _metric(scoring, y_true, y_pred):
    from sklearn import metrics

    if scoring in (None, "neg_mean_squared_error"):
        return -metrics.mean_squared_error(y_true, y_pred)
    if scoring == "neg_root_mean_squared_error":
        return -metrics.root_mean_squared_error(y_true, y_pred)
    return metrics.r2_score(y_true, y_pred)


def _clean_spectrum(s):
    s = np.asarray(s)
    # every singular value is clearly a direction of the data (more than four decades above the documented cut
    # max(n, m) * eps * s_max) or clearly rounding noise
    return bool(np.all((s >= 3e-10 * s[0]) | (s <= 1e-12 * s[0])))


def run(case, j):
    from skmatter.linear_model import Ridge2FoldCV

    X, Y, Z = case["X"], case["Y"], case["Z"]
    oned = np.ndim(Y) == 1
    Yin = Y
    Y = np.asarray(Y).reshape(len(X), -1)  # the oracle works with columns
    n, m = X.shape
    alphas, atype, method, scoring = case["alphas"], case["alpha_type"], case["method"], case["scoring"]
    if oned:
        j.note("one_dimensional_targets")
    j.tag(f"X:{case['shape']}", f"alpha:{atype}", f"method:{method}", f"scoring:{scoring}", f"cv:{case['cv']['kind']}", f"n_jobs:{case['n_jobs']}")
    cv_arg, kw, cv_ref = _cv_object(case["cv"], n)
    params = dict(alphas=alphas.copy(), alpha_type=atype, regularization_method=method, scoring=scoring, cv=cv_arg, n_jobs=case["n_jobs"])
    params.update({"shuffle": True, "random_state": None})  # constructor defaults
    params.update(kw)
    if case.get("past"):
        # an estimator with a past: fitted with every hyper-parameter different and on other data, then re-configured
        # through set_params; nothing of the first life may show in the second
        pr = np.random.default_rng(case["pseed"])
        other = [s_ for s_ in SCORERS if s_ != scoring]
        m0 = int(pr.integers(1, 12))
        n0 = int(pr.integers(6, 40))
        p0 = int(pr.integers(1, 4))
        X0 = pr.normal(size=(n0, m0)) * 10.0 ** pr.uniform(-2, 2)
        Y0 = pr.normal(size=(n0, p0)) if pr.random() < 0.7 else pr.normal(size=n0)
        if case["pseed"] % 2 == 0:  # every other time the earlier data are a sibling of the judged ones: same shapes, column means and norms
            X0 = forms.sibling(X, pr.normal(size=X.shape))
            Y0 = forms.sibling(Y, pr.normal(size=Y.shape)).reshape(np.shape(Yin))
        est = Ridge2FoldCV(
            alphas=np.sort(10.0 ** pr.uniform(-6, -0.5, size=int(pr.integers(1, 9)))),
            alpha_type="relative" if atype == "absolute" else "absolute",
            regularization_method="cutoff" if method == "tikhonov" else "tikhonov",
            scoring=other[int(pr.integers(len(other)))],
            cv=None if pr.random() < 0.5 else int(pr.integers(2, 4)),
            **({"shuffle": True, "random_state": int(pr.integers(100))} if pr.random() < 0.5 else {"shuffle": False, "random_state": None}),
        )
        j.lib("fit:decoy", est.fit, X0, Y0)
        j.lib("predict:decoy", est.predict, X0)
        j.lib("set_params", est.set_params, **params)
        j.note("estimators_with_a_past")
        j.tag("history:refit-after-set_params")
    else:
        est = forms.configure(Ridge2FoldCV, params, case.get("how", "ctor"), j=j)
    Xin = forms.as_integer(X, case["xint"]) if case.get("xint") else X
    Xin, Yin = forms.present(Xin, case.get("xform", "C")), forms.present(Yin, case.get("yform", "C"))
    if case.get("xint"):
        j.note("integer_typed_features")
    if case.get("xform", "C") != "C":
        j.note("non_default_containers")
    seen = {}

    def pre(self, a, k):
        seen["f1"], seen["f2"] = np.array(a[2], copy=True), np.array(a[3], copy=True)

    if case.get("aborted_fit") and case["cv"]["kind"] not in ("shuffle_rs", "kfold_rs"):  # (an aborted fit would advance a stateful generator)
        # a failure in the history: the same object, configured as it will be, but with a user scorer that raises on its
        # k-th call (an interrupted fit); the scorer is then corrected and the fit repeated
        calls = [0]

        def flaky(estimator, X_, y_):
            calls[0] += 1
            if calls[0] >= case["aborted_fit"]:
                raise RuntimeError("scoring aborted (simulated)")
            return 0.0

        est.scoring = flaky
        forms.rejected(j, "fit aborted inside the user's scorer", est.fit, Xin, Yin)
        est.scoring = scoring
    if case["cv"]["kind"] == "global_seed":
        np.random.seed(case["cv"]["seed"])
        j.note("folds_from_the_seeded_global_generator")
    cnt = [0]
    with rt.hook_method(Ridge2FoldCV, "_2fold_cv", pre=pre, counter=cnt):
        j.lib("fit", est.fit, Xin, Yin)
    est = forms.carry(est, case.get("carry", "same"), j)  # what is read afterwards may be a copy of what was fitted
    if case["n_jobs"] == 2:
        j.note("n_jobs_2_fits")
    if case["cv"]["kind"] in ("shuffle_rs", "kfold_rs"):
        j.note("stateful_random_generators")
    # ---- folds
    if cv_ref is None:
        if "f1" not in seen:
            raise Skip("random-folds-not-observable")
        e1, e2 = seen["f1"], seen["f2"]
        j.ok("default cv: two disjoint halves covering the data", len(np.intersect1d(e1, e2)) == 0 and len(e1) + len(e2) == n and abs(len(e1) - len(e2)) <= 1, (e1, e2))
        j.note("fold_captures")
    elif isinstance(cv_ref, list):
        e1, e2 = cv_ref[0]
        j.note("explicit_cv_fits")
    else:
        e1, e2 = next(cv_ref.split(X))
    if cv_ref is not None and cnt[0] and "f1" in seen:
        j.ok("folds are the first split of the supplied cv", np.array_equal(seen["f1"], e1) and np.array_equal(seen["f2"], e2), (seen["f1"], e1))
        j.note("fold_captures")
    elif cv_ref is not None:
        j.note("fold_hook_not_reached")
    X1, X2, Y1, Y2 = X[e1], X[e2], Y[e1], Y[e2]
    s1 = np.linalg.svd(X1, compute_uv=False)
    s2 = np.linalg.svd(X2, compute_uv=False)
    sf = np.linalg.svd(X, compute_uv=False)
    if not (_clean_spectrum(s1) and _clean_spectrum(s2) and _clean_spectrum(sf)):
        raise Skip("fold-spectrum-ambiguous-rank")
    deficient = bool((sf <= 1e-12 * sf[0]).any() or (s1 <= 1e-12 * s1[0]).any() or (s2 <= 1e-12 * s2[0]).any() or min(X1.shape) < m or min(X2.shape) < m)
    if deficient:
        j.note("rank_deficient_fits")
    if scoring == "r2":
        j.note("r2_fits")
    scale = max(s1[0], s2[0]) if atype == "relative" else 1.0
    scaled = alphas * scale
    # a cut-off that coincides with a singular value to rounding makes the kept set ambiguous
    exact = case["shape"] == "indicator" and all(np.all(s_ == np.round(s_)) for s_ in (s1, s2))  # the SVD returned the integers exactly
    if exact:
        j.note("cutoffs_exactly_on_a_singular_value", int(sum(np.any(s_ == a_) for a_ in scaled for s_ in (s1, s2))))
    if method == "cutoff":
        for a_ in scaled:
            for s_ in ((sf,) if exact else (s1, s2, sf)):
                big = s_[s_ > 1e-11 * s_[0]]
                if np.any(np.abs(big - a_) <= 1e-9 * big + 1e-13 * s_[0]):  # small singular values are known to eps x the largest
                    raise Skip("cutoff-coincides-with-singular-value")
    want = []
    for a_ in scaled:
        W1 = _solve(X1, Y1, a_, method)
        W2 = _solve(X2, Y2, a_, method)
        want.append(0.5 * (_metric(scoring, Y2, X2 @ W1) + _metric(scoring, Y1, X1 @ W2)))
    want = np.array(want)
    got = np.asarray(est.cv_values_, dtype=float)
    j.ok("one cv value per alpha", got.shape == want.shape, (got.shape, want.shape))
    tol = 1e-6 * (1 + np.abs(want))
    j.close("cv_values_ == explicit two-fold scores (fit on one fold, score on the other, averaged)", got, want, tol, {"alphas": scaled, "method": method, "scoring": scoring})
    j.note("alphas_judged", len(alphas))
    ib = int(np.argmax(want))
    ia = int(np.argmin(np.abs(alphas - est.alpha_)))
    j.ok("alpha_ is a grid value", bool(np.any(alphas == est.alpha_)), (est.alpha_, alphas))
    j.ok("alpha_ has the best explicit cross-validation score", want[ia] >= want[ib] - tol[ib], {"alpha_": est.alpha_, "its_score": want[ia], "best": want[ib], "grid": alphas, "scores": want})
    j.close("best_score_ is that score", est.best_score_, want[ia], tol[ia])
    # ---- final coefficients
    Wf = _solve(X, Y, scaled[ia], method)
    coef = np.asarray(est.coef_)
    j.ok("coef_ has shape (n_targets, n_features), or (n_features,) for a 1-D target", coef.shape == ((m,) if oned else (Y.shape[1], m)), coef.shape)
    coef = coef.reshape(-1, m)
    smin = sf[sf > 1e-11 * sf[0]].min()
    bound = 10 * np.linalg.norm(Y) / smin
    j.ok("coefficients stay bounded (null directions excluded)", np.linalg.norm(coef) <= bound, {"norm": float(np.linalg.norm(coef)), "bound": float(bound), "alpha": float(scaled[ia])})
    if coef.shape == Wf.T.shape:
        cond = sf[0] / smin
        j.close("coef_ == regularised solution on the full data for alpha_", coef, Wf.T, 1e-7 * max(float(np.abs(Wf).max()), 1e-300) * max(1.0, cond * 1e-3), {"alpha": float(scaled[ia]), "method": method})
        # the fitted values are insensitive to the scaling of the columns: every direction above the numerical rank
        # contributes its full share (times the filter factor of alpha_)
        j.close("X @ coef_ == fitted values of the regularised solution on the full data", X @ coef.T, X @ Wf, 1e-7 * max(float(np.abs(Y).max()), 1e-300) * max(1.0, cond * 1e-7), {"alpha": float(scaled[ia]), "method": method, "cond": float(cond)})
        if cond > 2e7:
            j.note("directions_more_than_7_decades_below_the_largest")
    pz = np.asarray(est.predict(Z))
    j.ok("predict returns one column per target (1-D for a 1-D target)", pz.shape == ((len(Z),) if oned else (len(Z), Y.shape[1])), pz.shape)
    j.close("predict(Z) == Z @ coef_.T", pz.reshape(len(Z), -1), Z @ coef.T, 1e-9 * max(float(np.abs(Z @ coef.T).max()), 1e-300))
    j.nontrivial = len(alphas) >= 3 and len(np.unique(np.round(want, 12))) >= 2
    j.sample = {
        "X": f"{X.shape} {case['shape']} sigma1={sf[0]:.3g}",
        "targets": Y.shape[1],
        "alpha_type": atype,
        "method": method,
        "scoring": scoring,
        "cv": case["cv"]["kind"],
        "alphas": [float(a) for a in alphas],
        "cv_values_": [float(v) for v in got],
        "oracle": [float(v) for v in want],
        "alpha_": float(est.alpha_),
        "fold_sizes": [len(e1), len(e2)],
    }
