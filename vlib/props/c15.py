"""C15 - periodic and Mahalanobis distances obey the metric laws under minimum image.

Monitor: the returned distance matrices of paired calls (shifted by lattice vectors,
with / without cell, squared / not, stacked / single precision matrices).
Oracle: metric axioms, free-space distance, explicit whitening.
"""

from __future__ import annotations

import numpy as np

from .. import forms, gens
from ..common import Skip, brief

ID = "C15"
CASES = {"quick": 4000, "thorough": 60000}
FLOOR = {"quick": 3600, "thorough": 55000}
FLOOR_COUNTERS = {
    "quick": {"all_points_inside_one_cell": 1200, "large_unit_precisions": 250, "image_shift_pairs": 3500, "half_cell_pairs": 600, "mahalanobis_calls": 3500, "triangle_triples": 3500, "tight_clouds_far_from_origin": 500, "cell_objects_edited_in_place": 3500, "mixed_layout_calls": 2500, "integer_typed_precisions": 300, "more_than_65536_pairs": 30, "numpy_bool_flags": 800, "rejected_calls_in_the_history": 2000},
    "thorough": {"all_points_inside_one_cell": 18000, "large_unit_precisions": 4000, "image_shift_pairs": 55000, "half_cell_pairs": 9000, "mahalanobis_calls": 55000, "triangle_triples": 55000, "tight_clouds_far_from_origin": 8000, "cell_objects_edited_in_place": 55000, "mixed_layout_calls": 40000, "integer_typed_precisions": 5000, "more_than_65536_pairs": 500, "numpy_bool_flags": 12000, "rejected_calls_in_the_history": 30000},
}
RULE = (
    "case = point sets X, Y in 1-6 dimensions with coordinates up to +-50 cells, positive rectangular cell (anisotropy up "
    "to 1e3), integer image shifts in -5..5 per point and coordinate, optional pairs placed exactly half a cell apart, SPD "
    "precision stacks (1-3 matrices, cond <= 1e6); a fifth of the cases are tight clouds (spread 1e-3..1) far from the origin "
    "(1e2..1e7); every case re-uses one cell object (array or list) that is edited in place between calls. non-trivial = anisotropic cell or half-cell pairs present; distinct by data hash."
)
ASSUMPTIONS = [
    "tolerance 1e-9 x (cell diagonal + largest coordinate): shifts by many cells lose absolute precision",
    "whitening identity judged in free space (no cell), as the property states, against the norm of L-whitened pair differences; relative tolerance 1e-9 + 40 eps d cond(P)",
]
RULE = RULE + " " + forms.RULE_SUFFIX


def gen(rng, tier, index):
    d = int(rng.integers(1, 7))
    nx, ny = int(rng.integers(1, 9)), int(rng.integers(1, 9))
    if index % 80 == 11:  # more pairs in one call than an implementation would fold in one block (65536, 131072)
        nx, ny = (int(rng.integers(257, 400)), int(rng.integers(257, 400))) if rng.random() < 0.7 else (1, int(rng.integers(66000, 140000)))
        d = int(rng.integers(1, 4))
    cell = 10.0 ** rng.uniform(-1, 1, size=d)
    if rng.random() < 0.4:
        cell = cell * 10.0 ** rng.uniform(-1.5, 1.5, size=d)
    X = rng.uniform(-50, 50, size=(nx, d)) * cell * (rng.random() < 0.5) + rng.uniform(-1, 1, size=(nx, d)) * cell
    Y = rng.uniform(-50, 50, size=(ny, d)) * cell * (rng.random() < 0.5) + rng.uniform(-1, 1, size=(ny, d)) * cell
    where = gens.pick(rng, ("anywhere", "anywhere", "centred_cell", "positive_cell", "tight_far"))
    if where == "centred_cell":  # every coordinate inside [-L/2, L/2]: pairs can still be > L/2 apart
        X, Y = rng.uniform(-0.5, 0.5, size=(nx, d)) * cell, rng.uniform(-0.5, 0.5, size=(ny, d)) * cell
    elif where == "positive_cell":
        X, Y = rng.uniform(0, 1, size=(nx, d)) * cell, rng.uniform(0, 1, size=(ny, d)) * cell
    elif where == "tight_far":  # a tight cloud far from the origin: separations << coordinates
        centre = rng.normal(size=d) * 10.0 ** rng.uniform(2, 7)
        spread = 10.0 ** rng.uniform(-3, 0)
        X, Y = centre + spread * rng.normal(size=(nx, d)), centre + spread * rng.normal(size=(ny, d))
    half = bool(rng.random() < 0.2)
    if half:  # y_0 exactly half a cell away from x_0 along some coordinates
        X = np.round(X / cell * 4) / 4 * cell
        Y = Y.copy()
        Y[0] = X[0] + 0.5 * cell * rng.integers(0, 2, size=d) * rng.choice([-1, 1], size=d) + cell * rng.integers(-3, 4, size=d)
    npm = int(rng.integers(1, 4))
    P = np.stack([gens.spd(rng, d, cond=float(10.0 ** rng.uniform(0, 6))) for _ in range(npm)])
    pint = bool(rng.random() < 0.12)
    if pint:  # whole-number precisions (identity, diagonal, L L^T with integer L) stored with an integer dtype
        Ls = [np.tril(rng.integers(-3, 4, size=(d, d))) + 4 * np.eye(d, dtype=int) for _ in range(npm)]
        P = np.stack([(L_ @ L_.T).astype(float) for L_ in Ls])
    unit = 1.0
    if rng.random() < 0.3 and not pint:  # the same configuration measured in other units: lengths x u, precisions / u^2
        unit = float(2.0 ** int(rng.integers(-12, 20)))
        X, Y, cell, P = X * unit, Y * unit, cell * unit, P / unit**2
    return {
        "X": X,
        "Y": Y,
        "cell": cell,
        "kx": rng.integers(-5, 6, size=(nx, d)),
        "ky": rng.integers(-5, 6, size=(ny, d)),
        "Zp": rng.uniform(-3, 3, size=(int(rng.integers(1, 5)), d)) * cell,
        "where": where,
        "unit": unit,
        "P": P,
        "half": half,
        "pint": pint,
        "npflags": bool(rng.random() < 0.3),
        "reject": bool(rng.random() < 0.4),
        "cell_edit": float(gens.pick(rng, (1.37, 0.61, 2.0, 1.001))),
        "cell_as_list": bool(rng.random() < 0.5),
        "layouts": [gens.pick(rng, ("C", "F", "strided", "readonly", "list")) for _ in range(2)],
    }


def run(case, j):
    from sklearn.metrics.pairwise import euclidean_distances

    from skmatter.metrics import pairwise_mahalanobis_distances as mah
    from skmatter.metrics import periodic_pairwise_euclidean_distances as ped

    X, Y, cell, kx, ky, Zp, P = case["X"], case["Y"], case["cell"], case["kx"], case["ky"], case["Zp"], case["P"]
    if case.get("pint"):
        P = np.asarray(P).astype(np.int64)  # the same whole-number precisions, integer-typed
        j.note("integer_typed_precisions")
    if len(X) * len(Y) > 65536:
        j.note("more_than_65536_pairs")
    d = X.shape[1]
    aniso = float(cell.max() / cell.min())
    j.tag(f"dim:{d}", "anisotropic" if aniso > 30 else "isotropic-ish", "half-cell" if case["half"] else "generic", f"points:{case.get('where')}", "unit:1" if case.get("unit", 1.0) == 1.0 else "unit:other")
    if case.get("where") in ("centred_cell", "positive_cell"):
        j.note("all_points_inside_one_cell")
    if case.get("unit", 1.0) > 1e3:
        j.note("large_unit_precisions")
    diag = float(np.linalg.norm(cell))
    big = max(float(np.abs(X).max()), float(np.abs(Y).max()), float(np.abs(kx * cell).max()), 1e-300)
    tol = 1e-9 * (diag + big)
    D = np.asarray(ped(X, Y, cell_length=cell))
    j.ok("shape (n_X, n_Y)", D.shape == (len(X), len(Y)), D.shape)
    j.ok("non-negative", bool(np.all(D >= 0)), float(D.min()))
    j.close("symmetric: d(X,Y) == d(Y,X)^T", D, np.asarray(ped(Y, X, cell_length=cell)).T, tol)
    Dxx = np.asarray(ped(X, cell_length=cell))
    j.close("d(X, X) has a zero diagonal and is symmetric", Dxx, Dxx.T * (1 - np.eye(len(X))), tol)
    # images
    Xs, Ys = X + kx * cell, Y + ky * cell
    j.close("zero between a point and any of its periodic images", np.diag(np.asarray(ped(X, Xs, cell_length=cell))), np.zeros(len(X)), tol)
    j.close("unchanged when points are shifted by integer multiples of the cell", np.asarray(ped(Xs, Ys, cell_length=cell)), D, tol)
    j.note("image_shift_pairs")
    if case["half"]:
        j.note("half_cell_pairs")
    # bounds
    Dfree = euclidean_distances(X, Y)
    Dsep = np.linalg.norm(X[:, None, :] - Y[None, :, :], axis=-1)  # from the pair differences: accurate also for tight, far clouds
    j.ok("never larger than the free-space distance", bool(np.all(D <= Dsep + tol)), float((D - Dsep).max()))
    j.ok("never larger than half the cell diagonal", bool(np.all(D <= diag / 2 + tol)), (float(D.max()), diag / 2))
    # triangle inequality through third points
    Dxz = np.asarray(ped(X, Zp, cell_length=cell))
    Dzy = np.asarray(ped(Zp, Y, cell_length=cell))
    via = (Dxz[:, :, None] + Dzy[None, :, :]).min(axis=1)
    j.ok("triangle inequality", bool(np.all(D <= via + tol)), float((D - via).max()))
    j.note("triangle_triples")
    # squared, no cell
    sq_true = np.bool_(True) if case.get("npflags") else True  # a flag that comes out of a NumPy comparison
    if case.get("npflags"):
        j.note("numpy_bool_flags")
        j.close("squared=np.False_ is not the square", np.asarray(ped(X, Y, cell_length=cell, squared=np.bool_(False))), D, tol)
    j.close("squared=True is the square", np.asarray(ped(X, Y, cell_length=cell, squared=sq_true)), D**2, tol * (diag + 1e-300) + 1e-9 * (D**2).max())
    j.close("without a cell == sklearn euclidean_distances", np.asarray(ped(X, Y)), Dfree, 1e-9 * max(float(Dfree.max()), big))
    # minimum image written out per coordinate
    diff = X[:, None, :] - Y[None, :, :]
    wrapped = np.abs(diff - np.round(diff / cell) * cell)
    wrapped = np.minimum(wrapped, cell - wrapped)
    j.close("equals the per-coordinate minimum-image distance", D, np.sqrt((wrapped**2).sum(-1)), tol)
    # Mahalanobis
    I = np.eye(d, dtype=int) if case.get("pint") else np.eye(d)
    M1 = np.asarray(mah(X, Y, I, cell_length=cell))
    j.ok("Mahalanobis result has a leading axis per precision matrix", M1.shape == (1, len(X), len(Y)), M1.shape)
    j.close("identity precision == periodic Euclidean distance", M1[0], D, tol)
    if case.get("reject"):
        # a failure in the history: a periodic call that is refused in the middle of the computation (a precision of the wrong
        # size) or at validation (cell of the wrong dimension); the free-space calls that follow know nothing of that cell
        forms.rejected(j, "periodic Mahalanobis call with a precision of the wrong size", mah, X, Y, np.eye(d + 1), cell_length=cell)
        forms.rejected(j, "periodic call with a cell of the wrong dimension", ped, X, Y, cell_length=np.ones(d + 1))
        j.close("free-space distances after a refused periodic call == sklearn euclidean_distances", np.asarray(ped(X, Y)), Dfree, 1e-9 * max(float(Dfree.max()), big))
    L = np.linalg.cholesky(np.asarray(P[0], dtype=float))
    Mw = np.asarray(mah(X, Y, P[0]))[0]
    # whitened separations computed from the pair differences (exact subtraction of nearby numbers), not from the
    # expanded quadratic form: the reference stays accurate for tight clouds far from the origin
    want = np.linalg.norm((X[:, None, :] - Y[None, :, :]) @ L, axis=-1)
    condP = float(np.linalg.cond(np.asarray(P[0], dtype=float)))
    relw = 1e-9 + 40 * np.finfo(float).eps * d * condP  # delta^T P delta carries a relative error of about eps * d * cond(P)
    j.close("precision L L^T == Euclidean distance between L-whitened points (free space)", Mw, want, relw * want + 1e-300)
    if case.get("where") == "tight_far":
        j.note("tight_clouds_far_from_origin")
        Mi0 = np.asarray(mah(X, Y, I))[0]
        sep = np.linalg.norm(X[:, None, :] - Y[None, :, :], axis=-1)
        j.close("identity precision, free space == Euclidean separation of the pair differences", Mi0, sep, 1e-9 * sep + 1e-300)
        j.close("squared=True is the square (free space, tight cloud)", np.asarray(mah(X, Y, P[0], squared=True))[0], want**2, 2 * relw * want**2 + 1e-300)
    Ms = np.asarray(mah(X, Y, P, cell_length=cell))
    j.ok("stack shape", Ms.shape == (len(P), len(X), len(Y)), Ms.shape)
    for i in range(len(P)):
        Mi = np.asarray(mah(X, Y, P[i], cell_length=cell))[0]
        j.close("each matrix of a precision stack is treated independently", Ms[i], Mi, 1e-12 * max(float(np.abs(Mi).max()), 1e-300))
    j.close("Mahalanobis squared=True is the square", np.asarray(mah(X, Y, P, cell_length=cell, squared=sq_true)), Ms**2, 1e-9 * max(float((Ms**2).max()), 1e-300))
    Msh = np.asarray(mah(Xs, Ys, P, cell_length=cell))
    j.close("Mahalanobis unchanged by integer image shifts", Msh, Ms, 1e-8 * max(float(Ms.max()), 1e-300) * (1 + big / (cell.min() + 1e-300)) * 1e-3 + 1e-7 * max(float(Ms.max()), 1e-300) + (np.inf if case["half"] else 0.0))
    j.note("mahalanobis_calls")
    # the same numbers in other containers, X and Y laid out independently of each other
    lx, ly = case.get("layouts", ["C", "C"])
    if (lx, ly) != ("C", "C"):
        Xl, Yl = forms.present(X, lx), forms.present(Y, ly)
        j.close("periodic distances independent of the memory layout / container of X and Y", np.asarray(j.lib("periodic distances, other containers", ped, Xl, Yl, cell_length=cell)), D, 1e-12 * (diag + big))
        # the Mahalanobis function is documented for numpy arrays only
        Xl, Yl = (np.asarray(Xl), np.asarray(Yl))
        j.close("Mahalanobis distances independent of the memory layout / container of X and Y", np.asarray(mah(Xl, Yl, P, cell_length=cell)), Ms, 1e-12 * max(float(Ms.max()), 1e-300) + 1e-12 * (diag + big) * float(np.sqrt(np.abs(P).max())))
        j.close("free-space Mahalanobis distances independent of the layout", np.asarray(mah(Xl, Yl, P[0]))[0], Mw, 1e-12 * max(float(Mw.max()), 1e-300) + relw * want)
        j.note("mixed_layout_calls")
    # the same cell object, edited in place between calls (a box that is being rescaled): every call uses the cell
    # values it is given at that moment
    cobj = [float(c) for c in cell] if case.get("cell_as_list") else np.array(cell, copy=True)

    def mi(c):
        c = np.asarray(c, dtype=float)
        w = np.abs(diff - np.round(diff / c) * c)
        return np.sqrt((np.minimum(w, c - w) ** 2).sum(-1))

    for step in range(3):
        cur = np.asarray(cobj, dtype=float).copy()
        tolc = 1e-9 * (float(np.linalg.norm(cur)) + big)
        fn = (lambda: np.asarray(ped(X, Y, cell_length=cobj))) if (step + d) % 2 else (lambda: np.asarray(mah(X, Y, I, cell_length=cobj))[0])
        j.close("cell object edited in place between calls: the distances follow the current cell", fn(), mi(cur), tolc, {"step": step, "cell": cur})
        if step % 2 == 0:
            for i_ in range(len(cobj)):
                cobj[i_] = cobj[i_] * case.get("cell_edit", 1.37)
        else:
            cobj[0] = cobj[0] * 0.5
    j.note("cell_objects_edited_in_place")
    # mismatched cell
    bad_cells = [np.ones(d + 1)] + ([np.ones(1), np.ones(d - 1)] if d > 1 else [])
    for fn, args in ((ped, (X, Y)), (mah, (X, Y, I))):
        for bc in bad_cells:
            try:
                fn(*args, cell_length=bc)
                j.ok("mismatched cell dimension is rejected", False, (fn.__name__, len(bc), d))
            except ValueError:
                j.ok("mismatched cell dimension is rejected", True)
    j.nontrivial = aniso > 30 or case["half"]
    j.sample = {"dim": d, "n_X": len(X), "n_Y": len(Y), "cell": [float(c) for c in cell], "half_cell_pair": case["half"], "d[0,0]": float(D[0, 0]), "free[0,0]": float(Dfree[0, 0]), "precisions": len(P)}
