"""C07 - CUR and PCov-CUR select by leverage score on the orthogonalised residual.

Monitor: GreedyTrace with the score() wrapper - pi exactly as each argmax saw it, the
index chosen; X_current_ (residual) after the fit.
Oracle: dense SVD / eigh of the (PCovR-modified) matrix assembled from an independently
computed projection residual (SVD basis of the selected items, pseudo-inverse
regression for the targets), refreshed on the documented schedule; tie-aware.
"""

from __future__ import annotations

import numpy as np

from .. import forms, gens, rt, sel
from ..common import Skip, brief

ID = "C07"
CASES = {"quick": 5000, "thorough": 50000}
FLOOR = {"quick": 3500, "thorough": 35000}
FLOOR_COUNTERS = {
    "quick": {"tables_with_more_than_65536_items": 3, "block_diagonal_tables_with_blocks_of_more_than_20_items": 400, "staged_fits_with_a_refused_warm_start": 300, "numpy_scalar_parameters": 800, "configured_not_by_constructor": 2000, "non_default_containers": 2000, "integer_typed_inputs": 300, "picks_judged": 12000, "stale_score_picks": 3000, "residual_checks": 3000, "relation_fits": 2000, "estimators_with_a_past": 1000, "small_unit_cases": 220},
    "thorough": {"tables_with_more_than_65536_items": 30, "block_diagonal_tables_with_blocks_of_more_than_20_items": 4000, "staged_fits_with_a_refused_warm_start": 3500, "numpy_scalar_parameters": 9000, "configured_not_by_constructor": 20000, "non_default_containers": 20000, "integer_typed_inputs": 3000, "picks_judged": 90000, "stale_score_picks": 10000, "residual_checks": 15000, "relation_fits": 10000, "estimators_with_a_past": 10000, "small_unit_cases": 2200},
}
RULE = (
    "case = (CUR | PCov-CUR) x (feature | sample), matrix family with rank above the request (1 in 8: block-diagonal tables, every block above 20 items, mostly mixing=1), k in {1,2,3}, mixing in "
    "{0,.3,.5,1}, recompute_every in {0,1,2,3}, tolerance, 1-D y; each pick is judged against pi recomputed by the oracle "
    "from the picks made up to the most recent refresh; relations sample<->feature (transpose) and PCov-CUR(mixing=1)==CUR. "
    "non-trivial = >= 2 judged picks; distinct by hash of spec+data."
)
ASSUMPTIONS = [
    "picks whose top-k subspace is not separated (relative gap < 1e-4) are skipped: the documented score is not determined there",
    "tolerance on pi: 1e-6 absolute (pi in [0,1]; ARPACK tol 1e-12 / gap 1e-4)",
    "steps with cond(selected items) > 1e5 are skipped for PCov-CUR (target residual goes through a pseudo-inverse)",
    "feature PCov-CUR: residual covariances with eigenvalues near the code's absolute 1e-12 cut are skipped",
    "steps after the residual is numerically exhausted are not judged (known finding K2 of C01)",
    "`tolerance` is the user's absolute 'this is zero' threshold (item norms) and relative pseudo-inverse cut (selected spectrum): cases where a residual item norm or the squared relative spectrum of the selections is within 100x of it are skipped",
]
RULE = RULE + " " + forms.RULE_SUFFIX
RULE = RULE + " " + 'One case in 1250: plain CUR, k = 2 or 3, on a table with 66000-70000 items on the long side and 6-10 on the short one.'
KINDS = ("gauss", "gauss", "uniform", "scaled1", "clustered", "lattice", "lowrank_hi", "copies", "multiscale")
TOL_PI = 1e-6


def _matrix(rng, n, m, kind):
    if kind == "scaled1":
        return rng.normal(size=(n, m)) * 10.0 ** rng.uniform(-1, 1, size=m)
    if kind == "copies":  # exact (scaled) copies of some columns and rows
        A = rng.normal(size=(n, m))
        for _ in range(int(rng.integers(1, 3))):
            a_, b_ = rng.choice(m, size=2, replace=False)
            A[:, b_] = A[:, a_] * float(gens.pick(rng, (1.0, 3.0, -2.0, 0.5)))
        if rng.random() < 0.5 and n > 3:
            a_, b_ = rng.choice(n, size=2, replace=False)
            A[b_] = A[a_] * float(gens.pick(rng, (1.0, 2.0, -1.0)))
        return A
    if kind == "multiscale":  # features in mixed units: a few columns of order 1, the rest smaller by 1e-3 .. 1e-7
        A = rng.normal(size=(n, m))
        small = rng.random(m) < 0.6
        small[int(rng.integers(m))] = False
        A[:, small] *= 10.0 ** -float(rng.uniform(3, 7))
        return A
    if kind == "blocks":
        # two groups of samples described by disjoint groups of features (two species with their own descriptors):
        # X^T X and X X^T are block diagonal, every block larger than the 20 Lanczos vectors an iterative eigen-solver
        # keeps by default; the first block carries a strong rank-one part, so the leading direction changes block
        # once that part has been selected away (n, m are ignored)
        na, nb, ma, mb = (int(v) for v in rng.integers(21, 29, size=4))
        A = np.zeros((na + nb, ma + mb))
        A[:na, :ma] = rng.normal(size=(na, ma)) + float(rng.uniform(2, 4)) * np.outer(rng.normal(size=na), rng.normal(size=ma)) / np.sqrt(ma)
        A[na:, ma:] = float(rng.uniform(1.0, 1.4)) * rng.normal(size=(nb, mb))
        if rng.random() < 0.5:  # the groups need not come first / last
            A = A[rng.permutation(na + nb)][:, rng.permutation(ma + mb)]
        return A
    if kind == "lowrank_hi":
        r = max(2, min(n, m) - int(rng.integers(0, 3)))
        return rng.normal(size=(n, r)) @ rng.normal(size=(r, m))
    return gens.matrix(rng, n, m, kind)


def gen(rng, tier, index):
    direction = ("feature", "sample")[index % 2]
    cls = ("CUR", "PCovCUR")[(index // 2) % 2]
    huge = index % 1250 == 7  # more than 2^16 items on the long side, a handful on the short one (plain CUR only: the PCov variants build an items x items matrix)
    if huge:
        direction, cls = ("feature", "sample")[(index // 1250) % 2], "CUR"
    hi = 14 if tier == "quick" else 26
    n, m = int(rng.integers(4, hi)), int(rng.integers(4, hi))
    kind = gens.pick(rng, KINDS)
    if index % 16 in (2, 3):
        kind = "blocks"
    X = _matrix(rng, n, m, kind)
    if huge:
        kind = "more_than_65536_items"
        long_, short_ = int(rng.integers(66000, 70000)), int(rng.integers(6, 11))
        X = rng.normal(size=(long_, short_)) * np.logspace(0, -0.7, short_)
        X[: short_ * 3] *= 4.0  # a few items stand out, so that the leading picks are well separated
        X = X if direction == "sample" else np.ascontiguousarray(X.T)
    n, m = X.shape
    unit = 1.0
    if rng.random() < 0.25 or (kind == "copies" and rng.random() < 0.5):
        unit = float(2.0 ** int(rng.integers(-24, 14))) if kind != "copies" else float(2.0 ** int(rng.integers(8, 15)))
        X = X * unit
    spec = {"dir": direction, "cls": cls, "kw": {}}
    kw = spec["kw"]
    N = X.shape[sel.axis_of(spec)]
    rank = int(np.linalg.matrix_rank(X))
    kw["k"] = int(gens.pick(rng, (1, 1, 2, 3)))
    kw["k"] = min(kw["k"], min(n, m) - 1)
    kw["recompute_every"] = int(gens.pick(rng, (1, 1, 0, 2, 3) if kind != "copies" else (1, 2, 2, 3, 3)))
    if rng.random() < 0.2:
        kw["tolerance"] = float(gens.pick(rng, (1e-10, 1e-8)))
    y = None
    if cls == "PCovCUR":
        kw["mixing"] = float(gens.pick(rng, (0.0, 0.3, 0.5, 0.5, 1.0) if kind != "blocks" else (1.0, 1.0, 1.0, 0.5, 0.0)))
        y = gens.target(rng, X, gens.pick(rng, ("linear", "noise", "nonlinear")), 1)
    elif rng.random() < 0.2:
        y = gens.target(rng, X, "noise", 1)
    kw["n_to_select"] = int(rng.integers(1, max(2, min(N, rank - 1)) + 1))
    if kind == "blocks":
        kw["n_to_select"] = int(rng.integers(3, 9))
    if huge:
        kw["k"], kw["recompute_every"], kw["n_to_select"] = int(gens.pick(rng, (2, 3))), 1, int(rng.integers(2, 4))
        kw.pop("tolerance", None)
    past = None
    if rng.random() < 0.3:  # the estimator was fitted before: other data of the same shape, another request
        past = {"X": forms.sibling_or(X, rng.normal(size=X.shape), unit), "y": None if y is None else rng.normal(size=len(X)), "n": int(rng.integers(1, max(2, min(N, rank - 1)) + 1))}
    if rng.random() < 0.12 and float(np.abs(X).max()) > 0:  # whole-number data (counts, grid indices) with an integer dtype
        X = np.round(X / float(np.abs(X).max()) * 40.0)
        spec["xint"] = gens.pick(rng, ("int64", "int32"))
    # the same configuration and the same numbers through another public route / container
    spec["how"] = gens.pick(rng, forms.CONFIGURE)
    spec["xform"] = gens.pick(rng, forms.PRESENT)
    spec["yform"] = gens.pick(rng, forms.PRESENT)
    spec["clobber"] = bool(rng.random() < 0.5)
    spec["npscalars"] = bool(rng.random() < 0.3)
    return {"spec": spec, "X": X, "y": y, "kind": kind, "unit": unit, "past": past, "warm_split": int(rng.integers(1, 50)) if rng.random() < 0.35 else 0}


def _fit(spec, X, y, j, label="", past=None, warm_split=0):
    est = sel.make(spec)
    if past is not None:
        n_real = est.n_to_select
        est.n_to_select = past["n"]
        j.lib("fit:earlier-history", sel.fit, est, past["X"], past["y"], spec)
        est.n_to_select = n_real
        j.note("estimators_with_a_past")
    tr = rt.GreedyTrace(est)
    n_final = est.n_to_select
    re_ = int(spec["kw"].get("recompute_every", 1))
    if warm_split and re_ in (0, 1) and isinstance(n_final, (int, np.integer)) and n_final >= 3:
        # two stages with a failure in between: fit(n1), a warm start asking for FEWER selections (refused), then the
        # corrected warm start to n (refresh intervals above 1 re-score at a restart and are not staged)
        n1 = 2 + int(warm_split) % (int(n_final) - 2)
        est.n_to_select = n1
        j.lib("fit:stage1" + label, sel.fit, est, X, y, spec)
        est.n_to_select = n1 - 1
        forms.rejected(j, "shrinking warm start", sel.fit, est, X, y, spec, warm=True)
        est.n_to_select = n_final
        j.lib("fit:warm" + label, sel.fit, est, X, y, spec, warm=True)
        j.note("staged_fits_with_a_refused_warm_start")
        return est, tr
    j.lib("fit" + label, sel.fit, est, X, y, spec)
    return est, tr


def _tolerance_clear(spec, X, seq):
    """The selectors' `tolerance` is an absolute threshold on the norm of a (residual) item below which it is treated as
    zero, and the cut of the least-squares explanation of y by the selections (feature direction: pseudo-inverse of the
    Gram matrix of the selected columns, i.e. on SQUARED singular values; sample direction: lstsq, on singular values).
    A case is judged only when every quantity the code compares with it is clear of it by a factor 100 either way."""
    tol = float(spec["kw"].get("tolerance", 1e-12))
    axis = sel.axis_of(spec)
    A = np.asarray(sel.items(X, axis), dtype=float)
    R = A.copy()
    for t, i in enumerate(seq):
        r = float(np.linalg.norm(R[i]))
        tol_i = max(tol, 100 * np.finfo(float).eps) * max(1.0, float(np.linalg.norm(A[i])))  # the code's threshold for this item
        if r < tol_i / 100 and r <= 1e-12 * float(np.linalg.norm(A[i])):
            continue  # numerically an exact copy of selected items: zero for the code and for the oracle alike
        if r < 100 * tol_i:
            return False  # the code treats it as zero (or nearly does), the documented projection does not
        q = R[i] / r
        R = R - np.outer(R @ q, q)
    if spec["cls"] == "PCovCUR" and seq:
        sv = np.linalg.svd(A[seq], compute_uv=False)
        if not len(sv) or sv[0] <= 0:
            return False
        sv = sv[sv > 1e-14 * sv[0]]  # exact copies among the selections add exact zeros
        ratio = float(sv[-1] / sv[0])
        cutq = ratio**2 if axis == 1 else ratio
        if tol / 100 <= cutq < 100 * tol:
            return False
    return True


def _judge_fit(spec, X, y, est, tr, j, judge_scores=True):
    """Lock-step comparison of one traced fit with the oracle. Returns (seq, n_judged,
    oracle pis per step or None)."""
    axis = sel.axis_of(spec)
    N = X.shape[axis]
    kw = spec["kw"]
    re = int(kw.get("recompute_every", 1))
    seq = [e["idx"] for e in tr.commits()]
    picks = tr.picks()
    pis = []
    cache = {}
    njudged = 0
    for t in range(len(seq)):
        S = seq[:t]
        r = 0 if re == 0 else (t // re) * re
        if sel.residual_energy(spec, X, S) <= 1e-20:
            j.note("exhausted_fits")
            break
        if r not in cache:
            Sr = seq[:r]
            ok_cond = True
            if spec["cls"] == "PCovCUR" and Sr:
                A = sel.items(X, axis)[Sr]
                sv = np.linalg.svd(A, compute_uv=False)
                lim = 1e-5 if axis == 1 else 1e-9  # feature direction: pseudo-inverse of the squared spectrum; sample: lstsq
                ok_cond = sv[-1] > lim * sv[0] if len(Sr) <= A.shape[1] else True
                if len(Sr) > A.shape[1]:
                    ok_cond = sv[min(A.shape) - 1] > lim * sv[0]
            # singular values are relative gaps of squared ones for the Gram-based scores: 1e-4 on singular values (CUR), 1e-6 on eigenvalues (PCov-CUR)
            cache[r] = sel.pi_oracle(spec, X, y, Sr, min_gap=1e-4 if spec["cls"] == "CUR" else 1e-6) if ok_cond else (None, False)
        pi, gap_ok = cache[r]
        if pi is None or not gap_ok:
            j.skip("degenerate-subspace-or-ill-conditioned")
            pis.append(None)
            continue
        pi_m = pi.copy()
        pi_m[S] = 0.0
        pis.append(pi_m)
        p = seq[t]
        best = pi_m.max()
        j.ok(
            "pick maximises the documented score among unselected items",
            p not in S and pi_m[p] >= best - TOL_PI,
            lambda: {"step": t, "picked": p, "score_at_pick": float(pi_m[p]), "best": float(best), "argbest": int(pi_m.argmax()), "refresh_at": r, "seq": seq, "kw": kw},
        )
        njudged += 1
        j.note("picks_judged")
        if r != t:
            j.note("stale_score_picks")
        if int((pi_m >= best - TOL_PI).sum()) > 1:
            j.note("ties_at_pick")
        if judge_scores and t < len(picks) and picks[t]["scores"] is not None:
            got = np.array(picks[t]["scores"], dtype=float)
            un = np.setdiff1d(np.arange(N), S)
            j.close("pi seen by the argmax == oracle pi on unselected items", got[un], pi[un], TOL_PI, {"step": t, "refresh_at": r})
    return seq, njudged, pis


def run(case, j):
    spec, X, y = case["spec"], case["X"], case["y"]
    if spec.get("how", "ctor") != "ctor":
        j.note("configured_not_by_constructor")
    if spec.get("xform", "C") != "C":
        j.note("non_default_containers")
    if spec.get("xint"):
        j.note("integer_typed_inputs")
    if spec.get("npscalars"):
        j.note("numpy_scalar_parameters")
    if case["kind"] == "blocks":
        j.note("block_diagonal_tables_with_blocks_of_more_than_20_items")
    if case["kind"] == "more_than_65536_items":
        j.note("tables_with_more_than_65536_items")
    axis = sel.axis_of(spec)
    kw = spec["kw"]
    j.tag(f"{spec['dir']}:{spec['cls']}", f"data:{case['kind']}", f"re:{kw['recompute_every']}", f"k:{kw['k']}", f"mixing:{kw.get('mixing')}")
    if case.get("unit", 1.0) < 1e-4:
        j.note("small_unit_cases")
    est, tr = _fit(spec, X, y, j, past=case.get("past"), warm_split=case.get("warm_split", 0))
    if not _tolerance_clear(spec, X, [e["idx"] for e in tr.commits()]):
        raise Skip("residual-norm-or-selected-spectrum-within-100x-of-the-tolerance")
    seq, njudged, pis = _judge_fit(spec, X, y, est, tr, j)
    idx = [int(v) for v in est.selected_idx_]
    j.ok("selected_idx_ == traced commits", idx == seq, (idx, seq))

    # residual exposed after the fit
    if kw["recompute_every"] != 0 and sel.residual_energy(spec, X, seq) > 1e-20 and hasattr(est, "X_current_"):
        Xr, _ = sel.cur_residuals(spec, X, None, seq)
        nX = max(float(np.linalg.norm(X)), 1e-300)
        A = sel.items(X, axis)
        sv = np.linalg.svd(A[seq], compute_uv=False)
        if sv[-1] > 1e-6 * sv[0]:
            j.close("X_current_ == input with the span of the selections projected out", est.X_current_, Xr, 1e-8 * nX)
            Xc = np.asarray(est.X_current_)
            G = (Xc.T @ X[:, seq]) if axis == 1 else (Xc @ X[seq].T)
            j.ok("X_current_ orthogonal to every selected item", float(np.abs(G).max()) <= 1e-8 * nX * nX, float(np.abs(G).max()))
            j.note("residual_checks")
            if spec["cls"] == "PCovCUR" and y is not None and getattr(est, "y_current_", None) is not None and sv[-1] > 1e-5 * sv[0]:
                _, yr = sel.cur_residuals(spec, X, y, seq)
                ny = max(float(np.linalg.norm(y)), 1e-300)
                j.close("y_current_ == y minus its least-squares explanation by the selections", np.asarray(est.y_current_).reshape(yr.shape), yr, 1e-7 * ny)
                j.note("target_residual_checks")
        else:
            j.skip("selected-items-ill-conditioned")

    # relations
    if spec["cls"] == "CUR":
        dual = {"dir": "feature" if spec["dir"] == "sample" else "sample", "cls": "CUR", "kw": dict(kw)}
        est_d, tr_d = _fit(dual, np.ascontiguousarray(X.T), None, j, ":dual")
        _compare(j, "sample CUR on X == feature CUR on X^T", seq, [e["idx"] for e in tr_d.commits()], pis)
        j.note("relation_fits")
    elif kw.get("mixing") == 1.0:
        plain = {"dir": spec["dir"], "cls": "CUR", "kw": {k: v for k, v in kw.items() if k != "mixing"}}
        est_c, tr_c = _fit(plain, X, None, j, ":cur")
        _compare(j, "PCov-CUR(mixing=1) == CUR", seq, [e["idx"] for e in tr_c.commits()], pis)
        j.note("relation_fits")

    j.nontrivial = njudged >= 2
    j.sample = {
        "selector": f"{spec['dir']}.{spec['cls']}",
        "kw": brief(kw),
        "X": f"{X.shape} {case['kind']}",
        "sequence": seq,
        "picks_judged": njudged,
        "pi_at_first_pick": None if not pis or pis[0] is None else [round(float(v), 4) for v in pis[0][:10]],
    }


def _compare(j, name, a, b, pis):
    for t in range(min(len(a), len(b), len(pis))):
        if a[t] == b[t]:
            continue
        pi = pis[t]
        if pi is None:
            j.skip("relation-divergence-at-degenerate-step")
            return
        best = pi.max()
        j.ok(name + " (divergence only at a tie)", pi[a[t]] >= best - TOL_PI and pi[b[t]] >= best - TOL_PI, {"step": t, "a": a, "b": b})
        j.note("relation_divergence_at_tie")
        return
    j.ok(name, True)
