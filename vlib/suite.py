"""Runs the repository's own test-suite under the runtime contracts (vlib.suite_monitor)."""

from __future__ import annotations

import json
import os
import subprocess
import sys
import tempfile

from . import common
from .common import VERIF_DIR

NETWORK_TESTS = "tests/test_sample_simple_cur.py"  # needs the network in this sandbox, fails regardless


def run_suite(contracts, tests=("tests",), timeout=3600):
    repo = common.REPO
    fd, out = tempfile.mkstemp(prefix="verif_suite_", suffix=".json", dir=os.environ.get("VERIF_TMP", "/var/tmp"))
    os.close(fd)
    env = dict(os.environ, VERIF_SUITE_OUT=out, VERIF_SUITE_CONTRACTS=",".join(contracts), PYTHONHASHSEED="0", TQDM_DISABLE="1", OMP_NUM_THREADS="1", OPENBLAS_NUM_THREADS="1", MKL_NUM_THREADS="1")
    env["PYTHONPATH"] = os.pathsep.join([os.path.join(repo, "src"), VERIF_DIR])
    cmd = [sys.executable, "-m", "pytest", "-q", "-p", "no:cacheprovider", "-p", "vlib.suite_monitor", "--timeout=1800", *tests, "--deselect", NETWORK_TESTS]
    try:
        p = subprocess.run(cmd, cwd=repo, env=env, capture_output=True, text=True, timeout=timeout)
        tail = (p.stdout.strip().splitlines() or [""])[-1]
        data = json.load(open(out)) if os.path.getsize(out) else None
    except subprocess.TimeoutExpired:
        return {"inconclusive": ["the repository's suite under contracts hit the watchdog"], "failures": [], "counters": {}, "evidence": {}}
    finally:
        try:
            os.unlink(out)
        except OSError:
            pass
    if data is None:
        return {"inconclusive": ["suite under contracts produced no report: " + tail], "failures": [], "counters": {}, "evidence": {"pytest_tail": tail}}
    inconc = []
    if data["errors"]:
        inconc.append(f"{len(data['errors'])} contract evaluations hit a harness error in the suite run")
    ev = data["evaluations"]
    counters = {"suite:" + k: v for k, v in ev.items() if not k.startswith(("purity:", "selector:"))}
    counters["suite:tests_run"] = data["tests"]
    counters["suite:judgments"] = data["judgments"]
    evidence = {
        "what": "the repository's own tests executed with the runtime contracts switched on (vlib/suite_monitor.py)",
        "contracts": list(contracts),
        "pytest_tail": tail,
        "tests_run": data["tests"],
        "judgments": data["judgments"],
        "evaluations_by_entry_point": {k: v for k, v in sorted(ev.items())},
        "harness_errors": data["errors"][:3],
        "note": "a test failing under instrumentation is not a verdict on the property; only contract failures are",
    }
    return {"inconclusive": inconc, "failures": data["failures"], "counters": counters, "evidence": evidence}


def replay_test(nodeid, contracts):
    r = run_suite(contracts, tests=(nodeid,))
    return r
