"""Workload generators: matrix families, targets, layouts, weights."""

from __future__ import annotations

import numpy as np

MATRIX_KINDS = (
    "gauss",
    "lowrank",
    "dup_rows",
    "dup_cols",
    "lattice",
    "scaled",
    "clustered",
    "collinear",
    "const_col",
    "uniform",
)


def matrix(rng, n, m, kind):
    """n x m float matrix of a named family."""
    if kind == "gauss":
        X = rng.normal(size=(n, m))
    elif kind == "uniform":
        X = rng.uniform(-1, 1, size=(n, m))
    elif kind == "lowrank":
        r = int(rng.integers(1, max(2, min(n, m))))
        X = rng.normal(size=(n, r)) @ rng.normal(size=(r, m))
    elif kind == "dup_rows":
        k = max(2, n // 2)
        X = rng.normal(size=(k, m))[rng.integers(0, k, size=n)]
        X[:k] = X[:k]  # keep as sampled
    elif kind == "dup_cols":
        k = max(2, m // 2)
        X = rng.normal(size=(n, k))[:, rng.integers(0, k, size=m)]
    elif kind == "lattice":
        w = int(rng.integers(1, 4))
        X = rng.integers(-w, w + 1, size=(n, m)).astype(float)
    elif kind == "scaled":
        X = rng.normal(size=(n, m)) * 10.0 ** rng.integers(-3, 4, size=m)
    elif kind == "clustered":
        c = int(rng.integers(2, 6))
        centres = rng.normal(size=(c, m)) * 10.0
        X = centres[rng.integers(0, c, size=n)] + 0.05 * rng.normal(size=(n, m))
    elif kind == "collinear":
        X = rng.normal(size=(n, 1)) @ rng.normal(size=(1, m)) + 1e-3 * rng.normal(size=(n, m))
    elif kind == "const_col":
        X = rng.normal(size=(n, m))
        X[:, int(rng.integers(m))] = float(rng.normal())
    else:
        raise ValueError(kind)
    return np.ascontiguousarray(X, dtype=float)


def pick(rng, seq, p=None):
    return seq[int(rng.choice(len(seq), p=p))]


def centred(X):
    return X - X.mean(axis=0)


def target(rng, X, kind="linear", p=1, noise=0.1, oned=True):
    n, m = X.shape
    if kind == "linear":
        W = rng.normal(size=(m, p))
        Y = X @ W + noise * rng.normal(size=(n, p)) * max(1e-12, np.abs(X @ W).std())
    elif kind == "noise":
        Y = rng.normal(size=(n, p))
    elif kind == "nonlinear":
        W = rng.normal(size=(m, p))
        Y = np.tanh(X @ W) + noise * rng.normal(size=(n, p))
    else:
        raise ValueError(kind)
    if p == 1 and oned:
        return Y[:, 0].copy()
    return Y


def well_conditioned(rng, n, m, cond=1e3):
    """n x m matrix (n >= m) with prescribed singular values in [1/cond, 1]*scale."""
    r = min(n, m)
    U, _ = np.linalg.qr(rng.normal(size=(n, r)))
    V, _ = np.linalg.qr(rng.normal(size=(m, r)))
    s = np.exp(rng.uniform(np.log(1.0 / cond), 0.0, size=r))
    s[0] = 1.0
    return (U * s) @ V.T * float(10.0 ** rng.uniform(-1, 1))


def orthogonal(rng, d):
    Q, R = np.linalg.qr(rng.normal(size=(d, d)))
    return Q * np.sign(np.diag(R))


def spd(rng, d, cond=1e3):
    Q = orthogonal(rng, d)
    s = np.exp(rng.uniform(-np.log(cond) / 2, np.log(cond) / 2, size=d))
    return (Q * s) @ Q.T


def weights(rng, n, kind):
    if kind == "none":
        return None
    if kind == "uniform":
        return np.full(n, float(rng.uniform(0.5, 3.0)))
    if kind == "random":
        return rng.uniform(0.1, 2.0, size=n)
    if kind == "integer":
        w = rng.integers(1, 4, size=n).astype(float)
        return w
    if kind == "integer0":
        w = rng.integers(0, 4, size=n).astype(float)
        if (w > 0).sum() < 2:
            w[:2] = 1.0
        return w
    raise ValueError(kind)
