"""Shared machinery for the greedy-selector properties (C01, C02, C06, C07, C08):
selector construction from a spec, reference models for distances and leverage
scores, exhaustion tests used by the known-finding classifiers."""

from __future__ import annotations

import numpy as np

from . import common  # noqa: F401
from .common import Skip

VARIANTS = (
    ("feature", "FPS"),
    ("feature", "PCovFPS"),
    ("feature", "CUR"),
    ("feature", "PCovCUR"),
    ("sample", "FPS"),
    ("sample", "PCovFPS"),
    ("sample", "CUR"),
    ("sample", "PCovCUR"),
    ("sample", "VoronoiFPS"),
)
FPS_FAMILY = ("FPS", "PCovFPS", "VoronoiFPS")
CUR_FAMILY = ("CUR", "PCovCUR")


def make(spec):
    """spec = {"dir": "feature"|"sample", "cls": name, "kw": {...}}"""
    from skmatter import feature_selection as fs
    from skmatter import sample_selection as ss

    from . import forms

    mod = fs if spec["dir"] == "feature" else ss
    kw = dict(spec.get("kw", {}))
    init = kw.get("initialize")
    if isinstance(init, dict):  # {"list": [...]} or {"array": [...]}
        dt = init.get("dtype")
        if "list" in init:
            kw["initialize"] = list(init["list"]) if dt is None else [np.dtype(dt).type(v) for v in init["list"]]
        else:
            kw["initialize"] = np.array(init["array"], dtype=dt or int)
    if spec.get("npscalars"):
        kw = forms.numpy_scalars(kw)
    how = spec.get("how", "ctor")
    if how == "clone" and spec["cls"] == "VoronoiFPS":
        how = "ctor"  # its **kwargs constructor hides parameters from clone (DESIGN 11.5)
    return forms.configure(getattr(mod, spec["cls"]), kw, how)


def axis_of(spec):
    return 1 if spec["dir"] == "feature" else 0


def needs_y(spec):
    return spec["cls"].startswith("PCov")


def resolve_n(n_to_select, N):
    if n_to_select is None:
        return N // 2
    if isinstance(n_to_select, (int, np.integer)):
        return int(n_to_select)
    return int(N * n_to_select)


def items(X, axis):
    """Rows are the items being selected."""
    return X if axis == 0 else X.T


# --------------------------------------------------------------------------- FPS oracle


def sym_isqrt(C, rcond=1e-12):
    w, U = np.linalg.eigh(C)
    keep = w > rcond * max(1.0, float(w.max(initial=0.0)))  # the code's cut (relative to the largest eigenvalue above 1)
    return (U[:, keep] / np.sqrt(w[keep])) @ U[:, keep].T, w


def fps_distance_matrix(spec, X, y):
    """Dense N x N matrix of squared distances, built independently of the code."""
    axis = axis_of(spec)
    A = items(X, axis)
    if spec["cls"] in ("FPS", "VoronoiFPS"):
        d = A[:, None, :] - A[None, :, :]
        return np.einsum("ijk,ijk->ij", d, d)
    a = float(spec["kw"].get("mixing", 0.5))
    Y = np.asarray(y, dtype=float).reshape(X.shape[0], -1)
    if axis == 0:
        M = a * (X @ X.T) + (1 - a) * (Y @ Y.T)
    else:
        C = X.T @ X
        Ci, w = sym_isqrt(C)
        Z = Ci @ (X.T @ Y)
        M = a * C + (1 - a) * (Z @ Z.T)
    d = np.diag(M)
    fps_distance_matrix.last_norms = np.array(d, dtype=float, copy=True)  # squared norms of the items in the modified metric
    return d[:, None] + d[None, :] - 2 * M


def spectrum_clear_of_cut(w, cut=1e-12, absolute_cut=True):
    """The code drops eigenvalues of X^T X below cut x max(1, largest eigenvalue) (pcovr_covariance since fix 71a1f76,
    PCovR since 375caf9).  The documented formula only determines the result when every eigenvalue is either clearly
    kept or clearly rounding noise; otherwise the case is outside 'up to rounding'."""
    w = np.asarray(w, dtype=float)
    wmax = max(float(np.max(np.abs(w))), 1e-300)
    cut = cut * max(1.0, wmax)
    kept = w > max(100 * cut, 1e-7 * wmax)
    noise = np.abs(w) < min(cut / 5, 200 * np.finfo(float).eps * wmax * len(w))
    return bool(np.all(kept | noise))


def pcov_spectrum_guard(spec, X):
    if not spec["cls"].startswith("PCov") or axis_of(spec) != 1:
        return True
    return spectrum_clear_of_cut(np.linalg.eigvalsh(X.T @ X))


def hausdorff(D, S):
    return D[:, list(S)].min(axis=1)


# --------------------------------------------------------------------------- CUR oracle


def proj_residual(A, S):
    """Items are rows of A. Remove from every row of A ... no: CUR deflates the
    *other* axis: selecting item s (a row of A = a column of the working matrix W =
    A^T) removes from every column of W its component along W[:, s]."""
    W = A.T  # columns of W are the items
    if len(S) == 0:
        return W.copy()
    U, sv, _ = np.linalg.svd(W[:, list(S)], full_matrices=False)
    # orthonormal basis of the span of the selected items (numerical rank)
    Q = U[:, sv > 1e-10 * max(sv[0], 1e-300)] if sv.size else U[:, :0]
    return W - Q @ (Q.T @ W)


def cur_residuals(spec, X, y, S):
    """(X_r, y_r) as documented, from the selections S made up to the last refresh.

    X_r has the orientation of X."""
    axis = axis_of(spec)
    A = items(X, axis)
    Wr = proj_residual(A, S)  # items are columns
    Xr = Wr if axis == 1 else Wr.T
    yr = None
    if y is not None and spec["cls"] == "PCovCUR":
        Y = np.asarray(y, dtype=float).reshape(X.shape[0], -1)
        if len(S) == 0:
            yr = Y.copy()
        elif axis == 1:
            Xs = X[:, list(S)]
            yr = Y - Xs @ np.linalg.lstsq(Xs, Y, rcond=1e-12)[0]
        else:
            Xs = X[list(S)]
            yr = Y - X @ np.linalg.lstsq(Xs, Y[list(S)], rcond=1e-12)[0]
    return Xr, yr


def pi_oracle(spec, X, y, S, min_gap=1e-6):
    """Leverage scores over the top-k subspace of the residual; returns (pi, gap_ok).

    gap_ok is False when the k-dimensional subspace is not well defined (spectral gap
    below 1e-6 relative) and the scores are then not determined by the documentation."""
    axis = axis_of(spec)
    k = int(spec["kw"].get("k", 1))
    Xr, yr = cur_residuals(spec, X, y, S)
    if spec["cls"] == "CUR":
        if k > min(Xr.shape):
            return None, False
        U, s, Vt = np.linalg.svd(Xr, full_matrices=False)  # thin: the top-k vectors are all that is needed (k <= min(n, m))
        sv = np.zeros(max(Xr.shape))
        sv[: len(s)] = s
        V = U if axis == 0 else Vt.T
        gap = (sv[k - 1] - (sv[k] if k < len(sv) else 0.0)) / max(sv[0], 1e-300)
        pi = (V[:, :k] ** 2).sum(axis=1)
        return pi, bool(gap >= min_gap and sv[0] > 0)
    a = float(spec["kw"].get("mixing", 0.5))
    if axis == 0:
        M = a * (Xr @ Xr.T) + (1 - a) * (yr @ yr.T)
    else:
        C = Xr.T @ Xr
        Ci, w = sym_isqrt(C)
        if not spectrum_clear_of_cut(w):
            return None, False
        Z = Ci @ (Xr.T @ yr)
        M = a * C + (1 - a) * (Z @ Z.T)
    w, U = np.linalg.eigh(M)
    w, U = w[::-1], U[:, ::-1]
    if k > len(w):
        return None, False
    nxt = w[k] if k < len(w) else 0.0
    gap = (w[k - 1] - nxt) / max(abs(w[0]), 1e-300)
    pi = (U[:, :k] ** 2).sum(axis=1)
    return pi, bool(gap >= min_gap and w[0] > 0)


def residual_energy(spec, X, S):
    A = items(X, axis_of(spec))
    W = proj_residual(A, S)
    return float((W**2).sum() / max((A**2).sum(), 1e-300))


# --------------------------------------------------------------------------- exhaustion


def exhausted(spec, X, y, S, D=None):
    """True when no numerically new item is left after selecting S: every unselected
    item coincides with a selected one (FPS family: all true min-distances are noise)
    or lies in the span of the selected ones (CUR family)."""
    N = X.shape[axis_of(spec)]
    un = [i for i in range(N) if i not in set(S)]
    if not un:
        return True
    if spec["cls"] in FPS_FAMILY:
        if D is None:
            D = fps_distance_matrix(spec, X, y)
        if len(S) == 0:
            return False
        # rounding level of a squared distance: relative to the squared norms, not to the (possibly
        # all-noise) distances themselves
        A = items(np.asarray(X, dtype=float), axis_of(spec))
        scale = max(float(np.abs(D).max()), float((A**2).sum(axis=1).max()), 1e-300)
        return bool(hausdorff(D, S)[un].max() <= 1e-12 * scale)
    return residual_energy(spec, X, S) <= 1e-20


def first_repeat(seq):
    seen = set()
    for t, i in enumerate(seq):
        if i in seen:
            return t
        seen.add(i)
    return None


import weakref

_LAST_BUFFERS = weakref.WeakKeyDictionary()  # estimator -> the (X, y) array objects of its previous fit through this helper
BUFFER_REUSE = [0]  # fits that received the very array objects of the previous fit, holding new numbers


def fit(est, X, y, spec, warm=False):
    from . import forms

    if spec.get("xfloat32"):  # single-precision input (the numbers are exactly representable: drawn that way)
        X = np.asarray(X).astype(np.float32)
    if spec.get("xint") and np.all(np.asarray(X) == np.round(X)):  # whole-number data handed over with an integer dtype
        X = forms.as_integer(X, spec["xint"])
    if spec.get("yint") and y is not None and np.all(np.asarray(y) == np.round(y)):
        y = np.asarray(y).astype(spec["yint"])
    X = forms.present(X, spec.get("xform", "C"))
    y = forms.present(y, spec.get("yform", "C"))
    if spec.get("global_seed") is not None and not warm:
        np.random.seed(int(spec["global_seed"]))  # the caller seeds NumPy's global generator and leaves random_state=None
    if spec.get("npscalars") and warm:
        warm = np.bool_(True)  # a flag that comes out of a NumPy comparison
    # a caller that keeps ONE pair of arrays for its data: when the previous fit of this estimator (an earlier life on
    # other data, an earlier link of a chain) received arrays of the same shape, dtype and layout, the new numbers are
    # written into those very objects - what identifies the data is their content, not the object that holds them
    try:
        prev = _LAST_BUFFERS.get(est)
    except TypeError:
        prev = None
    if prev is not None and isinstance(X, np.ndarray) and X.size and int(abs(float(X.flat[0])) * 1e6) % 2 == 0:  # for every other data set (the other callers hand over fresh arrays each time)
        pX, py = prev
        if isinstance(pX, np.ndarray) and pX.shape == X.shape and pX.dtype == X.dtype and pX.strides == X.strides and pX.flags.writeable and pX is not X:
            pX[...] = X
            X = pX
            BUFFER_REUSE[0] += 1
            if isinstance(y, np.ndarray) and isinstance(py, np.ndarray) and py.shape == y.shape and py.dtype == y.dtype and py.strides == y.strides and py.flags.writeable and py is not y:
                py[...] = y
                y = py
    try:
        _LAST_BUFFERS[est] = (X, y)
    except TypeError:
        pass
    try:
        if y is None:
            return est.fit(X, warm_start=warm) if warm else est.fit(X)
        return est.fit(X, y, warm_start=warm) if warm else est.fit(X, y)
    finally:
        if spec.get("clobber"):  # the caller re-uses its buffers: what the selector needs later it has kept for itself
            forms.clobber(X, y)


def require(cond, reason):
    if not cond:
        raise Skip(reason)
